package main

import (
	"context"
	"encoding/json"
	"flag"
	"fmt"
	"golang.org/x/tools/go/ssa"
	"os"
	"os/exec"
	"path/filepath"
	"regexp"
	"runtime"
	"sort"
	"strconv"
	"strings"
	"sync"
	"time"
)

// PropDef says which verification units and obligation kinds decide a property.
type PropDef struct {
	ID        string   `json:"id"`
	Units     []string `json:"units"`      // functions verified as units
	Kinds     []string `json:"kinds"`      // obligation kinds that count ("*" = all)
	SkipKinds []string `json:"skip_kinds"` // kinds ignored for this property
	Lemmas    []string `json:"lemmas"`
	Note      string   `json:"note"`
	NotCov    []string `json:"not_covered"`
	Assume    []string `json:"assumptions"`
	Bounded   []string `json:"bounded"`
	// CountSafety: a safety sweep. The safety obligations (nil, index, slice, typeassert, ...) left open per function and kind
	// may not become more than on the reference tree: ordinals shift with edits, their number does not.
	CountSafety bool `json:"count_safety"`
	// Select restricts, per unit, which obligations count for this property (substring match on the
	// obligation name); units without an entry count in full.
	Select map[string][]string `json:"select"`
}

func (p *PropDef) selected(unit string, o *Obl) bool {
	pats, ok := p.Select[unit]
	if !ok || len(pats) == 0 {
		pats, ok = p.Select["*"]
		if !ok || len(pats) == 0 {
			return true
		}
	}
	for _, s := range pats {
		if strings.HasPrefix(s, "kind:") {
			if o.Kind == s[5:] {
				return true
			}
		} else if strings.Contains(o.Name, s) {
			return true
		}
	}
	return false
}

type KnownFinding struct {
	Property   string `json:"property"`
	Obligation string `json:"obligation"`
	What       string `json:"what"`
	Why        string `json:"why_not_fixed"`
}

type KnownFile struct {
	Findings []KnownFinding `json:"findings"`
	Fixed    []string       `json:"fixed"`
}

func loadProps() map[string]*PropDef {
	data, err := os.ReadFile(filepath.Join(verifRoot, "props.json"))
	if err != nil {
		fmt.Fprintln(os.Stderr, "props.json:", err)
		os.Exit(2)
	}
	var list []*PropDef
	if err := json.Unmarshal(data, &list); err != nil {
		fmt.Fprintln(os.Stderr, "props.json:", err)
		os.Exit(2)
	}
	m := map[string]*PropDef{}
	for _, p := range list {
		m[p.ID] = p
	}
	return m
}

func loadKnown() KnownFile {
	var k KnownFile
	data, err := os.ReadFile(filepath.Join(verifRoot, "known_findings.json"))
	if err == nil {
		json.Unmarshal(data, &k)
	}
	return k
}

func loadBaseline(id string) map[string]bool {
	out := map[string]bool{}
	data, err := os.ReadFile(filepath.Join(verifRoot, "baseline", id+".txt"))
	if err != nil {
		return out
	}
	for _, l := range strings.Split(string(data), "\n") {
		l = strings.TrimSpace(l)
		if l == "" || strings.HasPrefix(l, "#") {
			continue
		}
		if strings.HasPrefix(l, "~") {
			continue
		}
		if i := strings.Index(l, "\t"); i >= 0 {
			out[l[:i]] = true
		} else {
			out[strings.Fields(l)[0]] = true
		}
	}
	return out
}

// loadBaselineOpen: obligations that were open (undecided or known findings) on the reference tree.
func loadBaselineOpen(id string) map[string]bool {
	out := map[string]bool{}
	data, err := os.ReadFile(filepath.Join(verifRoot, "baseline", id+".txt"))
	if err != nil {
		return out
	}
	for _, l := range strings.Split(string(data), "\n") {
		if strings.HasPrefix(l, "~open\t") {
			out[strings.TrimSpace(l[6:])] = true
		}
	}
	return out
}

// loadBaselineShapes: "~shape <unit> <signature>" lines: what the contracts of a unit were written against.
func loadBaselineShapes(id string) map[string]string {
	out := map[string]string{}
	data, err := os.ReadFile(filepath.Join(verifRoot, "baseline", id+".txt"))
	if err != nil {
		return out
	}
	for _, l := range strings.Split(string(data), "\n") {
		if strings.HasPrefix(l, "~shape\t") {
			f := strings.Split(l, "\t")
			if len(f) == 3 {
				out[f[1]] = f[2]
			}
		}
	}
	return out
}

// unitShape: the number of variables a closure captures and, per loop, the number of loop-carried variables (header phis).
// A contract can only speak about the variables that existed when it was written: when a closure captures a NEW variable
// (a value computed outside and carried in) or a loop carries a NEW variable from one iteration to the next, no precondition
// or invariant constrains it, and a failed proof says nothing about the code. Such a unit is undecided, not violated.
func unitShape(fn *ssa.Function) (fv int, phis []int) {
	if fn == nil {
		return 0, nil
	}
	fv = len(fn.FreeVars)
	for _, h := range loopHeaders(fn) {
		n := 0
		for _, in := range h.Instrs {
			if _, ok := in.(*ssa.Phi); ok {
				n++
			}
		}
		phis = append(phis, n)
	}
	return
}

func shapeString(fn *ssa.Function) string {
	fv, phis := unitShape(fn)
	var ps []string
	for _, n := range phis {
		ps = append(ps, strconv.Itoa(n))
	}
	return fmt.Sprintf("fv=%d;phis=%s", fv, strings.Join(ps, ","))
}

// shapeDrift compares the current shape of a unit with the one its contract was written against.
func shapeDrift(base string, fn *ssa.Function) string {
	var bfv int
	var bph string
	if _, err := fmt.Sscanf(base, "fv=%d;phis=%s", &bfv, &bph); err != nil && !strings.HasPrefix(base, "fv=") {
		return ""
	}
	fv, phis := unitShape(fn)
	if fv > bfv {
		return fmt.Sprintf("the closure captures %d variable(s), its contract was written for %d: nothing constrains the new one", fv, bfv)
	}
	var bp []int
	for _, x := range strings.Split(bph, ",") {
		if x != "" {
			n, _ := strconv.Atoi(x)
			bp = append(bp, n)
		}
	}
	if len(phis) > len(bp) {
		return fmt.Sprintf("the function has %d loop(s), its contract was written for %d", len(phis), len(bp))
	}
	for i := range phis {
		if phis[i] > bp[i] {
			return fmt.Sprintf("loop #%d carries %d variable(s) from one iteration to the next, its invariants were written for %d: nothing constrains the new one", i+1, phis[i], bp[i])
		}
	}
	return ""
}

// unitKindOf: "<unit>/<kind>" of a safety obligation name "<unit>/<kind>#<n>".
func unitKindOf(name string) string {
	if i := strings.LastIndex(name, "#"); i >= 0 {
		return name[:i]
	}
	return name
}

func kindWanted(p *PropDef, kind string) bool {
	for _, k := range p.SkipKinds {
		if k == kind {
			return false
		}
	}
	if len(p.Kinds) == 0 {
		return true
	}
	for _, k := range p.Kinds {
		if k == "*" || k == kind {
			return true
		}
	}
	return false
}

type oblReport struct {
	Name    string `json:"name"`
	Kind    string `json:"kind"`
	Pos     string `json:"pos"`
	Text    string `json:"text,omitempty"`
	Result  string `json:"result"`
	Solver  string `json:"solver"`
	Ms      int64  `json:"ms"`
	Queries int    `json:"queries,omitempty"`
}

func cmdCheck(args []string) int {
	fs := flag.NewFlagSet("check", flag.ExitOnError)
	tier := fs.String("tier", "quick", "quick|thorough")
	repo := fs.String("repo", "/repo", "repository root")
	writeBaseline := fs.Bool("write-baseline", false, "record the discharged obligations as the baseline (reference tree only)")
	noEvidence := fs.Bool("no-evidence", false, "do not write the evidence file (self-test runs on scratch copies)")
	var id string
	if len(args) > 0 && !strings.HasPrefix(args[0], "-") {
		id = args[0]
		args = args[1:]
	}
	fs.Parse(args)
	if id == "" && fs.NArg() > 0 {
		id = fs.Arg(0)
	}
	if t := os.Getenv("VERIF_TIER"); t == "quick" || t == "thorough" {
		*tier = t
	}
	seed := 0
	if s := os.Getenv("VERIF_SEED"); s != "" {
		seed, _ = strconv.Atoi(s)
	}
	props := loadProps()
	p := props[id]
	if p == nil {
		fmt.Fprintf(os.Stderr, "unknown property %q\n", id)
		return 2
	}
	start := time.Now()
	e := loadEngine(*repo)
	timeout := 20
	if *tier == "thorough" {
		timeout = 90
	}
	var jobs []*job
	var units []*Unit
	var unitErrs []string
	shapes := loadBaselineShapes(id)
	curShapes := map[string]string{}
	for _, name := range p.Units {
		un, err := e.verifyUnit(name)
		if err != nil {
			unitErrs = append(unitErrs, err.Error())
			continue
		}
		if un.fn != nil {
			curShapes[name] = shapeString(un.fn)
			if base, ok := shapes[name]; ok && !*writeBaseline {
				if d := shapeDrift(base, un.fn); d != "" {
					unitErrs = append(unitErrs, un.name+": "+d)
					continue
				}
			}
		}
		units = append(units, un)
		for _, o := range un.obls {
			if (o.Smoke && strings.HasSuffix(o.Name, "smoke:requires")) || (!o.Smoke && (kindWanted(p, o.Kind) || strings.Contains(o.Name, "["+p.ID+"]")) && p.selected(name, o)) {
				jobs = append(jobs, &job{un: un, obl: o})
			}
		}
	}
	lemmaJobs := e.lemmaJobs(p.Lemmas)
	jobs = append(jobs, lemmaJobs...)
	prelude := e.Prelude()
	outDir := filepath.Join(verifRoot, "out", id, *tier)
	if *repo != "/repo" {
		// a scratch copy (seeded change, harmless edit): its queries must not clobber those of a check of /repo, or of another copy
		outDir = filepath.Join(verifRoot, "out", id, *tier+"_"+sanitize(filepath.Base(*repo)))
	}
	os.RemoveAll(outDir)
	solveAll(jobs, prelude, filepath.Join(outDir, "vc"), timeout, seed, runtime.NumCPU())
	// an obligation that was discharged on the reference tree and now times out is retried on its own, with three times
	// the budget and a quiet machine, before it counts as failed (solver time varies with load; a refutation does not)
	{
		bl := loadBaseline(id)
		blNorm := map[string]bool{}
		for n := range bl {
			blNorm[normName(n)] = true
		}
		var again []*job
		for _, j := range jobs {
			if !j.obl.Smoke && j.res.Status == "unknown" && (bl[j.obl.Name] || (contractKind(j.obl.Kind) && blNorm[normName(j.obl.Name)])) {
				again = append(again, j)
			}
		}
		if len(again) > 0 && len(again) <= 16 {
			for _, j := range again {
				j.queries = 0
			}
			solveAll(again, prelude, filepath.Join(outDir, "vc_retry"), timeout*3, seed+1, 4)
			// ... and what is still undecided once more, one at a time (a machine that runs several checks at once can starve
			// the one solver that proves an obligation)
			var still []*job
			for _, j := range again {
				if j.res.Status == "unknown" {
					still = append(still, j)
				}
			}
			if len(still) > 0 && len(still) <= 4 {
				for _, j := range still {
					j.queries = 0
				}
				solveAll(still, prelude, filepath.Join(outDir, "vc_retry"), timeout*3, seed+2, 1)
			}
		}
	}

	// the queries of discharged obligations are not kept (disk); those of failed and undecided ones are (replay files name them)
	if os.Getenv("WV_KEEP_VC") == "" {
		for _, j := range jobs {
			if j.res.Status == "unsat" && j.res.File != "" {
				os.Remove(j.res.File)
				if m, _ := filepath.Glob(strings.TrimSuffix(j.res.File, ".smt2") + ".s*.smt2"); len(m) > 0 {
					for _, f := range m {
						os.Remove(f)
					}
				}
			}
		}
		os.RemoveAll(filepath.Join(outDir, "vc_retry"))
	}
	baseline := loadBaseline(id)
	// an edit may renumber blocks, returns and call sites: an obligation generated from a contract clause is recognised by
	// its clause, whatever the program point it is now checked at
	baselineNorm := map[string]bool{}
	for n := range baseline {
		baselineNorm[normName(n)] = true
	}
	known := loadKnown()
	// obligations the provers left open on the reference tree were never claimed: whatever a solver says about them now
	// (a `sat` there is a model of the abstraction -- loops without invariants, havocked callees -- not an execution)
	openBase := loadBaselineOpen(id)
	var reports []oblReport
	var failed, undecided, discharged []*job
	vacuous := []string{}
	deadReturns := []string{}
	seen := map[string]bool{}
	var solverMs int64
	for _, j := range jobs {
		solverMs += j.res.Ms
		if j.obl.Smoke {
			if j.res.Status == "unsat" {
				if strings.HasSuffix(j.obl.Name, "smoke:requires") {
					vacuous = append(vacuous, j.obl.Name)
				} else {
					deadReturns = append(deadReturns, j.obl.Name)
				}
			}
			continue
		}
		seen[j.obl.Name] = true
		res := "discharged"
		switch {
		case j.res.Status == "unsat":
			discharged = append(discharged, j)
		case openBase[j.obl.Name] && !*writeBaseline:
			res = "undecided(" + j.res.Status + ")"
			undecided = append(undecided, j)
		case baseline[j.obl.Name] || len(baseline) == 0 || j.res.Status == "sat" || (contractKind(j.obl.Kind) && baselineNorm[normName(j.obl.Name)]):
			res = "FAILED(" + j.res.Status + ")"
			failed = append(failed, j)
		default:
			res = "undecided(" + j.res.Status + ")"
			undecided = append(undecided, j)
		}
		reports = append(reports, oblReport{j.obl.Name, j.obl.Kind, j.obl.Pos, trunc(j.obl.Text, 160), res, j.res.Solver, j.res.Ms, j.queries})
	}
	if p.CountSafety && len(baseline) > 0 && !*writeBaseline {
		open0 := loadBaselineOpen(id)
		base := map[string]int{}
		for n := range open0 {
			base[unitKindOf(n)]++
		}
		cur := map[string][]*job{}
		for _, j := range undecided {
			if !contractKind(j.obl.Kind) {
				cur[unitKindOf(j.obl.Name)] = append(cur[unitKindOf(j.obl.Name)], j)
			}
		}
		curFailed := map[string]int{}
		for _, j := range failed {
			if !contractKind(j.obl.Kind) {
				curFailed[unitKindOf(j.obl.Name)]++
			}
		}
		promoted := map[*job]bool{}
		for uk, js := range cur {
			excess := len(js) + curFailed[uk] - base[uk]
			// first the ones that were not open under this very name, then (ordinals may have shifted) the last ones
			for i := len(js) - 1; i >= 0 && excess > 0; i-- {
				if !open0[js[i].obl.Name] {
					promoted[js[i]] = true
					excess--
				}
			}
			for i := len(js) - 1; i >= 0 && excess > 0; i-- {
				if !promoted[js[i]] {
					promoted[js[i]] = true
					excess--
				}
			}
		}
		if len(promoted) > 0 {
			var rest []*job
			for _, j := range undecided {
				if promoted[j] {
					failed = append(failed, j)
				} else {
					rest = append(rest, j)
				}
			}
			undecided = rest
		}
	}
	if len(baseline) > 0 && !*writeBaseline {
		// a safety obligation that is not in the baseline and is refuted (`sat`) counts as failed -- unless the function had
		// open obligations of that kind on the reference tree and has no more of them now: then it is one of those under a
		// shifted ordinal (the model is one of the abstraction, see above)
		base := map[string]int{}
		for n := range openBase {
			base[unitKindOf(n)]++
		}
		if len(base) > 0 {
			tot := map[string]int{}
			for _, j := range undecided {
				if !contractKind(j.obl.Kind) {
					tot[unitKindOf(j.obl.Name)]++
				}
			}
			for _, j := range failed {
				if !contractKind(j.obl.Kind) {
					tot[unitKindOf(j.obl.Name)]++
				}
			}
			var rest []*job
			for _, j := range failed {
				uk := unitKindOf(j.obl.Name)
				if !contractKind(j.obl.Kind) && !baseline[j.obl.Name] && base[uk] > 0 && tot[uk] <= base[uk] {
					undecided = append(undecided, j)
					continue
				}
				rest = append(rest, j)
			}
			failed = rest
		}
	}
	var missing []string
	for n := range baseline {
		if !seen[n] {
			missing = append(missing, n)
		}
	}
	sort.Strings(missing)

	rc := 0
	if len(vacuous) > 0 || len(unitErrs) > 0 && len(baseline) == 0 {
		for _, v := range vacuous {
			fmt.Printf("ENGINE-ERROR: contradictory precondition: %s\n", v)
		}
		for _, u := range unitErrs {
			fmt.Printf("ENGINE-ERROR: %s\n", u)
		}
		rc = 2
	}
	// units that can no longer be translated although they were verified on the reference tree
	var lostUnits []string
	if len(baseline) > 0 {
		for _, u := range unitErrs {
			lostUnits = append(lostUnits, u)
		}
	}
	violations := 0
	var knownHit []string
	replayDir := filepath.Join(outDir, "replay")
	matchKnown := func(name string) (KnownFinding, bool) {
		for _, k := range known.Findings {
			if k.Property == id && (k.Obligation == name || strings.HasPrefix(name, k.Obligation)) {
				return k, true
			}
		}
		return KnownFinding{}, false
	}
	knownLine := func(j *job, k KnownFinding) string {
		line := fmt.Sprintf("KNOWN-FINDING: property=%s %s: %s", id, j.obl.Name, k.What)
		if (*tier == "thorough" || os.Getenv("WV_REPLAY_KNOWN") != "") && j.res.Status == "sat" {
			// a known finding is demonstrated again on every thorough run where the solver's model can be replayed
			if path, found := e.counterexample(j, prelude, replayDir, *repo, timeout); found {
				line += "\n  replayed on the real code (panics): " + path
			}
		}
		return line
	}
	for _, j := range undecided {
		if k, ok := matchKnown(j.obl.Name); ok {
			knownHit = append(knownHit, knownLine(j, k))
		}
	}
	for _, j := range failed {
		if k, ok := matchKnown(j.obl.Name); ok {
			knownHit = append(knownHit, knownLine(j, k))
			continue
		}
		violations++
		path, found := e.counterexample(j, prelude, replayDir, *repo, timeout)
		suffix := ""
		if !found {
			suffix = " no-failing-input-found"
		}
		fmt.Printf("VIOLATION property=%s replay=%s%s\n", id, path, suffix)
		fmt.Printf("  obligation %s (%s) at %s: %s -- %s\n", j.obl.Name, j.obl.Kind, j.obl.Pos, trunc(j.obl.Text, 200), j.res.Status)
		rc = 1
	}
	// A unit whose contract no longer fits the code (a renamed local that a loop invariant names, a construct outside the
	// subset, a function that is gone) cannot be decided: that is reported, loudly, but it is not a violation -- an
	// undischarged proof is not a counterexample.
	for _, u := range lostUnits {
		fmt.Printf("UNDECIDED-UNIT property=%s: the contract of this unit does not fit the current code, nothing is claimed for it: %s\n", id, trunc(u, 300))
	}
	sort.Strings(knownHit)
	for _, k := range knownHit {
		fmt.Println(k)
	}
	for _, j := range undecided {
		fmt.Printf("undecided (not in baseline, no alarm): %s %s %s\n", j.obl.Name, j.obl.Pos, trunc(j.obl.Text, 100))
	}
	for _, m := range missing {
		fmt.Printf("missing (baseline obligation no longer generated, no alarm): %s\n", m)
	}

	if *writeBaseline {
		var b strings.Builder
		fmt.Fprintf(&b, "# obligations of %s discharged on the reference tree (name solver ms)\n", id)
		sort.Slice(discharged, func(a, c int) bool { return discharged[a].obl.Name < discharged[c].obl.Name })
		for _, j := range discharged {
			fmt.Fprintf(&b, "%s\t%s\t%d\n", j.obl.Name, j.res.Solver, j.res.Ms)
		}
		// obligations the provers leave open on the reference tree (not claimed); a safety sweep compares their number per
		// function and kind
		for _, j := range undecided {
			fmt.Fprintf(&b, "~open\t%s\n", j.obl.Name)
		}
		for _, j := range failed {
			fmt.Fprintf(&b, "~open\t%s\n", j.obl.Name)
		}
		// the shape each contract was written against (captured variables, loop-carried variables)
		for _, name := range p.Units {
			if sh, ok := curShapes[name]; ok {
				fmt.Fprintf(&b, "~shape\t%s\t%s\n", name, sh)
			}
		}
		os.MkdirAll(filepath.Join(verifRoot, "baseline"), 0o755)
		os.WriteFile(filepath.Join(verifRoot, "baseline", id+".txt"), []byte(b.String()), 0o644)
	}

	// thorough tier: (a) every fourth discharged obligation is proved again by a solver other than the one that proved it;
	// (b) the must-fail corpus /verif/seeded/<id>/*/patch.diff is replayed on scratch copies: each seeded change has to be reported
	thoroughExtra = map[string]interface{}{}
	if *tier == "thorough" && *repo == "/repo" {
		agree, disagree, open2 := crossCheck(discharged, prelude, filepath.Join(outDir, "vc_cross"), timeout, seed)
		thoroughExtra["cross_checked"] = agree + disagree + open2
		thoroughExtra["cross_agree"] = agree
		thoroughExtra["cross_undecided_by_second_solver"] = open2
		thoroughExtra["cross_disagree"] = disagree
		if disagree > 0 {
			fmt.Printf("ENGINE-ERROR: %d obligation(s) proved by one solver are refuted by another\n", disagree)
			if rc == 0 {
				rc = 2
			}
		}
		st := selfTest(id)
		thoroughExtra["selftest"] = st
		det, nseed, quiet, nharm, und := 0, 0, 0, 0, 0
		for _, x := range st {
			if n, ok := x["undecided_units"].(int); ok && n > 0 && x["detected"] != true {
				und++
			}
			if x["harmless"] == true {
				nharm++
				if x["quiet"] == true {
					quiet++
				}
				continue
			}
			nseed++
			if x["detected"] == true {
				det++
			}
		}
		fmt.Printf("SELFTEST %s: %d of %d seeded changes reported, %d of %d harmless edits quiet (%d answered with an undecided unit)\n", id, det, nseed, quiet, nharm, und)
	}
	wall := time.Since(start).Seconds()
	if !*noEvidence {
		writeEvidence(e, p, *tier, seed, units, reports, discharged, failed, undecided, missing, knownHit, deadReturns, violations, wall, float64(solverMs)/1000, outDir)
	}
	fmt.Printf("%s %s: %d obligations, %d discharged, %d failed (%d known), %d undecided, %d missing; %d functions under contract; %.1fs\n",
		id, *tier, len(reports), len(discharged), len(failed), len(knownHit), len(undecided), len(missing), len(units), wall)
	return rc
}

func writeEvidence(e *Engine, p *PropDef, tier string, seed int, units []*Unit, reports []oblReport, discharged, failed, undecided []*job,
	missing, knownHit, deadReturns []string, violations int, wall, solverS float64, outDir string) {
	var fns []string
	notes := map[string]bool{}
	for _, un := range units {
		fns = append(fns, un.name)
		for n := range un.notes {
			notes[n] = true
		}
	}
	var trusted []string
	trusted = append(trusted, "solvers: z3 5.1.0, z3 4.8.12, cvc5 1.0.3 (first definite answer wins)")
	trusted = append(trusted, "go/ssa (x/tools v0.29.0) as the semantics of the Go source; translation of SSA to SMT by /verif/engine (validated by the must-fail corpus and by replaying counterexamples)")
	for _, t := range e.trustedList {
		trusted = append(trusted, "trusted contract: "+t)
	}
	for _, a := range e.axioms {
		trusted = append(trusted, "axiom: "+a.Name+": "+a.BodyText)
	}
	assumptions := append([]string{}, p.Assume...)
	assumptions = append(assumptions,
		"A-SEQ: sequential reasoning per goroutine; other goroutines do not interfere between lock acquire and release",
		"A-INT: integers are mathematical; every fixed-width arithmetic operation carries an overflow obligation",
		"partial correctness: termination is not proved")
	assumptions = append(assumptions, sortedStrings(notes)...)
	for _, n := range p.NotCov {
		assumptions = append(assumptions, "not covered: "+n)
	}
	var samples []interface{}
	for i, r := range reports {
		if i%maxInt(1, len(reports)/6) == 0 && len(samples) < 8 {
			samples = append(samples, r)
		}
	}
	var und []string
	for _, j := range undecided {
		und = append(und, j.obl.Name)
	}
	cov := map[string]interface{}{
		// claimed obligations: discharged ones plus unexplained failures (known findings and undecided ones are listed apart)
		"obligations":              len(discharged) + violations,
		"discharged":               len(discharged),
		"checker_cmd":              fmt.Sprintf("bin/wv check %s --tier %s", p.ID, tier),
		"trusted_base":             trusted,
		"functions_under_contract": fns,
		"per_obligation":           reports,
		"solver_time_s":            solverS,
		"undecided_not_claimed":    und,
		"missing_from_baseline":    missing,
		"known_findings":           knownHit,
		"dead_returns":             deadReturns,
		"bounded_checks":           p.Bounded,
		"samples":                  samples,
		"vc_dir":                   filepath.Join(outDir, "vc"),
		"contract_files":           e.contractFiles,
	}
	for k, v := range thoroughExtra {
		cov[k] = v
	}
	ev := map[string]interface{}{
		"property_id": p.ID, "tier": tier, "seed": seed, "level": "proof", "coverage": cov,
		"assumptions": assumptions, "wall_s": wall, "violations": violations,
	}
	os.MkdirAll(filepath.Join(verifRoot, "evidence"), 0o755)
	data, _ := json.MarshalIndent(ev, "", " ")
	os.WriteFile(filepath.Join(verifRoot, "evidence", p.ID+".json"), data, 0o644)
}

func maxInt(a, b int) int {
	if a > b {
		return a
	}
	return b
}

func (e *Engine) lemmaJobs(names []string) []*job { return nil }

var thoroughExtra map[string]interface{}

// crossCheck proves every fourth discharged obligation again with the solvers that did not prove it.
func crossCheck(discharged []*job, prelude, dir string, timeoutS, seed int) (agree, disagree, open2 int) {
	os.MkdirAll(dir, 0o755)
	sv := availableSolvers()
	type res struct{ st string }
	var mu sync.Mutex
	var wg sync.WaitGroup
	sem := make(chan struct{}, runtime.NumCPU())
	for i, j := range discharged {
		if i%4 != 0 || j.split > 0 {
			continue
		}
		var others []solverSpec
		for _, s := range sv {
			if s.name != j.res.Solver {
				others = append(others, s)
			}
		}
		if len(others) == 0 {
			continue
		}
		wg.Add(1)
		sem <- struct{}{}
		go func(j *job, others []solverSpec) {
			defer wg.Done()
			defer func() { <-sem }()
			file := filepath.Join(dir, sanitize(j.obl.Name)+".smt2")
			os.WriteFile(file, []byte(j.un.Query(j.obl, prelude, nil)), 0o644)
			st := "unknown"
			for _, s := range others {
				r := runSolver(context.Background(), s, file, timeoutS/3+2, seed)
				if r.Status == "unsat" {
					st = "unsat"
					break
				}
				if r.Status == "sat" {
					st = "sat"
					fmt.Printf("SOLVER-DISAGREEMENT: %s proved by %s, refuted by %s\n", j.obl.Name, j.res.Solver, s.name)
					break
				}
			}
			mu.Lock()
			switch st {
			case "unsat":
				agree++
			case "sat":
				disagree++
			default:
				open2++
			}
			mu.Unlock()
		}(j, others)
	}
	wg.Wait()
	return
}

// selfTest replays the seeded changes of a property on scratch copies of /repo (under the system temp dir, removed afterwards).
func selfTest(id string) []map[string]interface{} {
	var out []map[string]interface{}
	dirs, _ := filepath.Glob(filepath.Join(verifRoot, "seeded*", id, "*", "patch.diff"))
	sort.Strings(dirs)
	// harmless edits that touch this property's units: they must NOT be reported
	harmless := map[string]bool{}
	hd, _ := filepath.Glob(filepath.Join(verifRoot, "harmless*", "*", "meta.json"))
	sort.Strings(hd)
	for _, mf := range hd {
		var meta struct {
			Properties []string `json:"properties"`
		}
		if b, err := os.ReadFile(mf); err == nil && json.Unmarshal(b, &meta) == nil {
			for _, pp := range meta.Properties {
				if pp == id {
					pd := filepath.Join(filepath.Dir(mf), "patch.diff")
					dirs = append(dirs, pd)
					harmless[pd] = true
				}
			}
		}
	}
	exe, _ := os.Executable()
	for _, pd := range dirs {
		rec := map[string]interface{}{"mutant": filepath.Dir(pd)}
		if harmless[pd] {
			rec["harmless"] = true
		}
		tmp, err := os.MkdirTemp("", "wv_selftest_")
		if err != nil {
			rec["error"] = err.Error()
			out = append(out, rec)
			continue
		}
		func() {
			defer os.RemoveAll(tmp)
			if b, err := exec.Command("rsync", "-a", "--exclude", ".git", "/repo/", tmp+"/").CombinedOutput(); err != nil {
				rec["error"] = "copy: " + trunc(string(b), 200)
				return
			}
			ap := exec.Command("git", "apply", "--whitespace=nowarn", "--unsafe-paths", "--directory="+tmp, pd)
			ap.Dir = "/"
			if b, err := ap.CombinedOutput(); err != nil {
				// fall back to patch(1)-like application inside the copy
				ap2 := exec.Command("sh", "-c", "cd "+tmp+" && git init -q . && git apply --whitespace=nowarn "+pd)
				if b2, err2 := ap2.CombinedOutput(); err2 != nil {
					rec["error"] = "patch does not apply: " + trunc(string(b)+string(b2), 300)
					return
				}
			}
			bc := exec.Command("go", "build", "./...")
			bc.Dir = tmp
			bc.Env = append(os.Environ(), "GOFLAGS=-mod=mod", "GOPROXY=off", "GOSUMDB=off", "GOTOOLCHAIN=local")
			if b, err := bc.CombinedOutput(); err != nil {
				rec["error"] = "does not compile: " + trunc(string(b), 300)
				return
			}
			c := exec.Command(exe, "check", id, "--repo", tmp, "--no-evidence", "--tier", "quick")
			c.Env = append(os.Environ(), "VERIF_TIER=quick")
			b, _ := c.CombinedOutput()
			txt := strings.ReplaceAll(string(b), tmp, "/repo")
			var obls []string
			lines := strings.Split(txt, "\n")
			for i, l := range lines {
				if strings.HasPrefix(l, "VIOLATION") && i+1 < len(lines) {
					obls = append(obls, trunc(strings.TrimSpace(lines[i+1]), 160))
				}
			}
			und := strings.Count(txt, "UNDECIDED-UNIT")
			rec["undecided_units"] = und
			if harmless[pd] {
				rec["quiet"] = len(obls) == 0
			} else {
				rec["detected"] = len(obls) > 0
			}
			if len(obls) > 5 {
				obls = obls[:5]
			}
			rec["failed_obligations"] = obls
		}()
		out = append(out, rec)
	}
	return out
}

var normRe = regexp.MustCompile(`@(b|ret|c)\d+$`)

// normName drops the program point (block, return or call-site ordinal) from an obligation name.
func normName(n string) string { return normRe.ReplaceAllString(n, "") }

// contractKind: obligations that come from a clause of a contract (as opposed to the safety conditions of single instructions).
func contractKind(k string) bool {
	switch k {
	case "postcondition", "invariant", "precondition", "callsite", "frame", "lemma", "callback", "channel", "escape":
		return true
	}
	return false
}
