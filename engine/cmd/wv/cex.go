package main

import (
	"fmt"
	"os"
	"path/filepath"
	"strings"
)

// counterexample tries to turn a failed obligation into an input that fails on the real code.
// It always writes a replay file naming the obligation and carrying the solver output.
func (e *Engine) counterexample(j *job, prelude, dir, repo string, timeoutS int) (string, bool) {
	os.MkdirAll(dir, 0o755)
	path := filepath.Join(dir, sanitize(j.obl.Name)+".replay.txt")
	var b strings.Builder
	fmt.Fprintf(&b, "obligation: %s\nkind: %s\nposition: %s\nclause: %s\nsolver: %s status: %s (%d ms, %d queries)\nvc: %s\n",
		j.obl.Name, j.obl.Kind, j.obl.Pos, j.obl.Text, j.res.Solver, j.res.Status, j.res.Ms, j.queries, j.res.File)
	fmt.Fprintf(&b, "solver output:\n%s\n", trunc(j.res.Output, 4000))
	found := false
	if rep, ok := e.replay(j, prelude, dir, repo, timeoutS, &b); ok {
		found = rep
	}
	os.WriteFile(path, []byte(b.String()), 0o644)
	return path, found
}

func (e *Engine) replay(j *job, prelude, dir, repo string, timeoutS int, log *strings.Builder) (bool, bool) {
	return false, false
}

func cmdReplay(args []string) int {
	if len(args) < 1 {
		fmt.Fprintln(os.Stderr, "usage: wv replay <file>")
		return 2
	}
	data, err := os.ReadFile(args[0])
	if err != nil {
		fmt.Fprintln(os.Stderr, err)
		return 2
	}
	fmt.Print(string(data))
	return 0
}
