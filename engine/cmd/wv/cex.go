package main

import (
	"context"
	"encoding/json"
	"fmt"
	"go/types"
	"os"
	"os/exec"
	"path/filepath"
	"regexp"
	"strconv"
	"strings"
	"time"

	"golang.org/x/tools/go/ssa"
)

// Counterexamples.
//
// A failed obligation is first of all a named obligation that no longer discharges. Where the solver answers `sat` (after
// the relevance filter most safety obligations of small functions are quantifier-free enough for that), its model is turned
// into arguments of the real function and the real function is run on them in an in-package test injected with
// `go test -overlay` (nothing is written into the repository). Only what the real code does counts: a model is a model of the
// abstraction (loops cut at their invariants, callees replaced by contracts), so the input is reported as a failing input
// only if the real function panics on it. Everything else ends with `no-failing-input-found`.
//
// Functions within reach of the replay: package-level functions and methods whose parameters (receiver included) are
// booleans, integers, strings, byte slices (or named types of those) and pointers to structs that the precondition says
// nothing about beyond non-nil (those are passed as fresh zero values).

const replayElems = 256 // elements of a string / byte slice read from the model in the first round
const replayMaxLen = 1 << 16

// counterexample tries to turn a failed obligation into an input that fails on the real code.
// It always writes a replay file naming the obligation and carrying the solver output.
func (e *Engine) counterexample(j *job, prelude, dir, repo string, timeoutS int) (string, bool) {
	os.MkdirAll(dir, 0o755)
	path := filepath.Join(dir, sanitize(j.obl.Name)+".replay.txt")
	var b strings.Builder
	fmt.Fprintf(&b, "obligation: %s\nkind: %s\nposition: %s\nclause: %s\nsolver: %s status: %s (%d ms, %d queries)\nvc: %s\n",
		j.obl.Name, j.obl.Kind, j.obl.Pos, j.obl.Text, j.res.Solver, j.res.Status, j.res.Ms, j.queries, j.res.File)
	fmt.Fprintf(&b, "solver output:\n%s\n", trunc(j.res.Output, 4000))
	found, how := e.replay(j, prelude, repo, timeoutS, &b)
	if found {
		b.WriteString("result: failing-input-found (" + how + ")\n")
	} else {
		b.WriteString("result: no-failing-input-found\n")
	}
	os.WriteFile(path, []byte(b.String()), 0o644)
	return path, found
}

type replayParam struct {
	name  string
	smt   string
	sort  Sort
	typ   types.Type
	class string // int bool string bytes ptr
}

func replayClass(t types.Type) string {
	switch u := t.Underlying().(type) {
	case *types.Basic:
		switch {
		case u.Info()&types.IsBoolean != 0:
			return "bool"
		case u.Info()&types.IsInteger != 0:
			return "int"
		case u.Info()&types.IsString != 0:
			return "string"
		}
	case *types.Slice:
		if b, ok := u.Elem().Underlying().(*types.Basic); ok && b.Kind() == types.Uint8 {
			return "bytes"
		}
	case *types.Pointer:
		if _, ok := u.Elem().Underlying().(*types.Struct); ok {
			if _, named := u.Elem().(*types.Named); named {
				return "ptr"
			}
		}
	}
	return ""
}

var paramDeclRe = regexp.MustCompile(`^\(declare-const (p_[^ ]+![0-9]+) `)

// replay: model -> arguments -> run of the real function. Reports whether the real function panicked.
func (e *Engine) replay(j *job, prelude, repo string, timeoutS int, log *strings.Builder) (bool, string) {
	fn := j.un.fn
	if fn == nil || fn.Parent() != nil || fn.Pkg == nil || len(fn.FreeVars) > 0 {
		log.WriteString("replay: not attempted (closure or synthetic unit)\n")
		return false, ""
	}
	if j.res.Status != "sat" {
		log.WriteString("replay: not attempted (the solver gave no model: status " + j.res.Status + ")\n")
		return false, ""
	}
	// parameters and their SMT constants (declared in order at the start of the unit)
	var consts []string
	for _, d := range j.un.decls {
		if m := paramDeclRe.FindStringSubmatch(d); m != nil {
			consts = append(consts, m[1])
		}
	}
	if len(consts) < len(fn.Params) {
		log.WriteString("replay: not attempted (parameter constants not found)\n")
		return false, ""
	}
	ct := e.contractFor(fn)
	var ps []replayParam
	for i, p := range fn.Params {
		c := replayClass(p.Type())
		if c == "" {
			fmt.Fprintf(log, "replay: not attempted (parameter %s of type %s cannot be built from a model)\n", p.Name(), p.Type())
			return false, ""
		}
		if c == "ptr" && ct != nil {
			for _, r := range ct.Requires {
				if strings.Contains(r.Text, p.Name()+".") || strings.Contains(r.Text, "("+p.Name()+")") || strings.Contains(r.Text, "*"+p.Name()) {
					fmt.Fprintf(log, "replay: not attempted (the precondition constrains the object behind %s)\n", p.Name())
					return false, ""
				}
			}
		}
		ps = append(ps, replayParam{name: p.Name(), smt: consts[i], sort: e.u.SortOf(p.Type()), typ: p.Type(), class: c})
	}
	query, err := os.ReadFile(j.res.File)
	if err != nil {
		query = []byte(j.un.Query(j.obl, prelude, nil))
	}
	q := strings.Replace(string(query), "(check-sat)", "", 1)
	q = "(set-option :produce-models true)\n" + q
	hasBytes := strings.Contains(q, "(declare-const E_byte@0 ")
	// small inputs first
	var small []string
	for _, p := range ps {
		switch p.class {
		case "bytes":
			small = append(small, fmt.Sprintf("(assert (<= (slen %s) 32))", p.smt))
		case "string":
			small = append(small, fmt.Sprintf("(assert (<= (strlen %s) 32))", p.smt))
		}
	}
	terms := func(n int) []string {
		var ts []string
		for _, p := range ps {
			switch p.class {
			case "int", "bool", "ptr":
				ts = append(ts, p.smt)
			case "string":
				ts = append(ts, "(strlen "+p.smt+")")
				for i := 0; i < n; i++ {
					ts = append(ts, fmt.Sprintf("(strat %s %d)", p.smt, i))
				}
			case "bytes":
				ts = append(ts, "(slen "+p.smt+")", "(sbase "+p.smt+")")
				if hasBytes {
					for i := 0; i < n; i++ {
						ts = append(ts, fmt.Sprintf("(select (select E_byte@0 (sbase %s)) (+ (soff %s) %d))", p.smt, p.smt, i))
					}
				}
			}
		}
		return ts
	}
	dir, err := os.MkdirTemp("", "wv_replay_")
	if err != nil {
		return false, ""
	}
	defer os.RemoveAll(dir)
	ask := func(extra []string, n int) ([]string, bool) {
		ts := terms(n)
		text := q + strings.Join(extra, "\n") + "\n(check-sat)\n(get-value (" + strings.Join(ts, " ") + "))\n"
		f := filepath.Join(dir, "model.smt2")
		os.WriteFile(f, []byte(text), 0o644)
		ctx, cancel := context.WithTimeout(context.Background(), time.Duration(timeoutS+5)*time.Second)
		defer cancel()
		out, _ := exec.CommandContext(ctx, "z3-new", fmt.Sprintf("-T:%d", timeoutS), f).CombinedOutput()
		s := string(out)
		if !strings.HasPrefix(s, "sat") {
			return nil, false
		}
		vals := parseGetValue(s[strings.Index(s, "\n")+1:], len(ts))
		if vals == nil {
			return nil, false
		}
		return vals, true
	}
	vals, ok := ask(small, 32)
	n := 32
	if !ok {
		n = replayElems
		vals, ok = ask(nil, n)
	}
	if !ok {
		log.WriteString("replay: the solver gave no model on the second run\n")
		return false, ""
	}
	// arguments as Go expressions
	pkg := fn.Pkg.Pkg
	imports := map[string]string{}
	qual := func(p *types.Package) string {
		if p == pkg {
			return ""
		}
		imports[p.Path()] = p.Name()
		return p.Name()
	}
	var args, descr []string
	var ins []concVal
	k := 0
	for _, p := range ps {
		ty := types.TypeString(p.typ, qual)
		switch p.class {
		case "int":
			v := vals[k]
			k++
			args = append(args, fmt.Sprintf("%s(%s)", ty, v))
			descr = append(descr, fmt.Sprintf("%s = %s", p.name, v))
			ins = append(ins, concVal{class: "int", s: v})
		case "bool":
			v := vals[k]
			k++
			args = append(args, fmt.Sprintf("%s(%s)", ty, v))
			descr = append(descr, fmt.Sprintf("%s = %s", p.name, v))
			ins = append(ins, concVal{class: "bool", s: v})
		case "ptr":
			v := vals[k]
			k++
			if v == "0" {
				args = append(args, fmt.Sprintf("(%s)(nil)", ty))
				descr = append(descr, p.name+" = nil")
				ins = append(ins, concVal{class: "nilable", isNil: true})
			} else {
				ins = append(ins, concVal{class: "nilable"})
				args = append(args, fmt.Sprintf("new(%s)", types.TypeString(p.typ.Underlying().(*types.Pointer).Elem(), qual)))
				descr = append(descr, p.name+" = fresh zero value")
			}
		case "string", "bytes":
			ln, _ := strconv.Atoi(vals[k])
			k++
			isNil := false
			if p.class == "bytes" {
				isNil = vals[k] == "0"
				k++
			}
			have := n
			if p.class == "bytes" && !hasBytes {
				have = 0
			}
			if ln < 0 || ln > replayMaxLen {
				fmt.Fprintf(log, "replay: not attempted (model length %d of %s)\n", ln, p.name)
				return false, ""
			}
			bs := make([]string, 0, ln)
			raw := make([]byte, 0, ln)
			for i := 0; i < ln; i++ {
				if i < have {
					b, _ := strconv.Atoi(vals[k+i])
					bs = append(bs, strconv.Itoa(b&0xff))
					raw = append(raw, byte(b&0xff))
				} else {
					bs = append(bs, "0")
					raw = append(raw, 0)
				}
			}
			k += have
			lit := "[]byte{" + strings.Join(bs, ", ") + "}"
			if p.class == "bytes" && isNil && ln == 0 {
				lit = "[]byte(nil)"
			}
			ins = append(ins, concVal{class: p.class, b: raw, isNil: p.class == "bytes" && isNil && ln == 0})
			args = append(args, fmt.Sprintf("%s(%s)", ty, lit))
			show := lit
			if len(show) > 300 {
				show = show[:300] + "...}"
			}
			descr = append(descr, fmt.Sprintf("%s = %s", p.name, show))
		}
	}
	call := fn.Name() + "(" + strings.Join(args, ", ") + ")"
	if fn.Signature.Recv() != nil {
		call = "(" + args[0] + ")." + fn.Name() + "(" + strings.Join(args[1:], ", ") + ")"
	}
	var src strings.Builder
	fmt.Fprintf(&src, "package %s\n\nimport (\n\t\"fmt\"\n\t\"runtime/debug\"\n\t\"testing\"\n", pkg.Name())
	for path, name := range imports {
		fmt.Fprintf(&src, "\t%s %q\n", name, path)
	}
	src.WriteString(")\n\n")
	fmt.Fprintf(&src, "// replay of %s\nfunc TestWVReplay(t *testing.T) {\n", j.obl.Name)
	src.WriteString("\tdefer func() {\n\t\tif r := recover(); r != nil {\n\t\t\tfmt.Printf(\"WV-REPLAY-PANIC: %v\\n\", r)\n\t\t\tfmt.Printf(\"%s\\n\", debug.Stack())\n\t\t}\n\t}()\n")
	lhs, printers := resultPrinter(fn)
	fmt.Fprintf(&src, "\t%s%s\n\tfmt.Println(\"WV-REPLAY-RETURNED\")\n", lhs, call)
	for _, ps := range printers {
		fmt.Fprintf(&src, "\t%s\n", ps)
	}
	src.WriteString("}\n")
	pos := fn.Prog.Fset.Position(fn.Pos())
	if !pos.IsValid() {
		log.WriteString("replay: not attempted (no source position)\n")
		return false, ""
	}
	pkgDir := filepath.Dir(pos.Filename)
	fmt.Fprintf(log, "replay-input: %s\nreplay-package: %s\nreplay-dir: %s\n--- replay test ---\n%s--- end replay test ---\n", strings.Join(descr, "; "), pkg.Path(), pkgDir, src.String())
	out, err := runReplayTest(repo, pkg.Path(), pkgDir, src.String())
	fmt.Fprintf(log, "replay-output:\n%s\n", trunc2(out, 3000))
	if err != nil && !strings.Contains(out, "WV-REPLAY-") {
		fmt.Fprintf(log, "replay: the test could not be run: %v\n", err)
		return false, ""
	}
	if strings.Contains(out, "WV-REPLAY-PANIC") {
		return true, "the real function panics on the input above"
	}
	// a postcondition: evaluate the clause on what the real function returned
	if m := ensuresNameRe.FindStringSubmatch(j.obl.Name); m != nil && strings.Contains(out, "WV-REPLAY-RETURNED") && fn.Signature.Results().Len() > 0 {
		outs := parseRealResults(out, fn.Signature.Results().Len())
		switch v := e.evalEnsuresOnReal(fn, m[1], ins, outs, prelude, timeoutS, log); v {
		case "violated":
			for _, l := range resultLines(out) {
				fmt.Fprintf(log, "replay-expect: %s\n", l)
			}
			return true, "the real function returns, on the input above, results for which the clause ensures#" + m[1] + " is false"
		default:
			fmt.Fprintf(log, "replay: the clause evaluated on the real results of this input: %s\n", v)
		}
	}
	return false, ""
}

func trunc2(s string, n int) string {
	if len(s) > n {
		return s[:n] + "\n..."
	}
	return s
}

// runReplayTest runs an in-package test that exists only in an overlay.
func runReplayTest(repo, pkgPath, pkgDir, src string) (string, error) {
	dir, err := os.MkdirTemp("", "wv_replayrun_")
	if err != nil {
		return "", err
	}
	defer os.RemoveAll(dir)
	tf := filepath.Join(dir, "wv_replay_test.go")
	os.WriteFile(tf, []byte(src), 0o644)
	ov, _ := json.Marshal(map[string]interface{}{"Replace": map[string]string{filepath.Join(pkgDir, "wv_replay_test.go"): tf}})
	of := filepath.Join(dir, "overlay.json")
	os.WriteFile(of, ov, 0o644)
	ctx, cancel := context.WithTimeout(context.Background(), 180*time.Second)
	defer cancel()
	cmd := exec.CommandContext(ctx, "go", "test", "-overlay", of, "-vet=off", "-count=1", "-timeout", "60s", "-run", "^TestWVReplay$", "-v", pkgPath)
	cmd.Dir = repo
	// goindex=0: the module index of the go command ignores overlays of files in the module cache
	cmd.Env = append(os.Environ(), "GOFLAGS=-mod=mod", "GOPROXY=off", "GOSUMDB=off", "GOTOOLCHAIN=local", "GODEBUG=goindex=0")
	out, err := cmd.CombinedOutput()
	return string(out), err
}

// parseGetValue reads the answer of (get-value (t1 ... tn)): ((t1 v1) ... (tn vn)); values are integers or booleans.
func parseGetValue(s string, n int) []string {
	s = strings.TrimSpace(s)
	if !strings.HasPrefix(s, "(") {
		return nil
	}
	// split the top-level list into its pair elements
	var pairs []string
	depth := 0
	start := -1
	for i := 0; i < len(s); i++ {
		switch s[i] {
		case '(':
			depth++
			if depth == 2 {
				start = i
			}
		case ')':
			if depth == 2 && start >= 0 {
				pairs = append(pairs, s[start+1:i])
				start = -1
			}
			depth--
		}
		if depth == 0 && i > 0 {
			break
		}
	}
	if len(pairs) != n {
		return nil
	}
	out := make([]string, n)
	for i, p := range pairs {
		// the value is the last top-level element of the pair
		p = strings.TrimSpace(p)
		var v string
		if strings.HasSuffix(p, ")") {
			d := 0
			k := len(p) - 1
			for ; k >= 0; k-- {
				if p[k] == ')' {
					d++
				} else if p[k] == '(' {
					d--
					if d == 0 {
						break
					}
				}
			}
			v = p[k:]
		} else {
			v = p[strings.LastIndexAny(p, " \t\n")+1:]
		}
		v = strings.TrimSpace(v)
		if strings.HasPrefix(v, "(-") {
			v = "-" + strings.TrimSpace(strings.TrimSuffix(strings.TrimPrefix(v, "(-"), ")"))
		}
		if _, err := strconv.ParseInt(v, 10, 64); err != nil && v != "true" && v != "false" {
			return nil
		}
		out[i] = v
	}
	return out
}

var _ = ssa.Function{}

func cmdReplay(args []string) int {
	if len(args) < 1 {
		fmt.Fprintln(os.Stderr, "usage: wv replay <file> [--repo dir]")
		return 2
	}
	repo := "/repo"
	if len(args) >= 3 && args[1] == "--repo" {
		repo = args[2]
	}
	data, err := os.ReadFile(args[0])
	if err != nil {
		fmt.Fprintln(os.Stderr, err)
		return 2
	}
	text := string(data)
	fmt.Print(text)
	i := strings.Index(text, "--- replay test ---\n")
	k := strings.Index(text, "--- end replay test ---")
	if i < 0 || k < 0 {
		return 0
	}
	src := text[i+len("--- replay test ---\n") : k]
	field := func(name string) string {
		for _, l := range strings.Split(text, "\n") {
			if strings.HasPrefix(l, name+": ") {
				return strings.TrimPrefix(l, name+": ")
			}
		}
		return ""
	}
	pkgDir := field("replay-dir")
	{
		// the package directory in the tree the replay is run against (the file may have been written for a scratch copy)
		c := exec.Command("go", "list", "-f", "{{.Dir}}", field("replay-package"))
		c.Dir = repo
		c.Env = append(os.Environ(), "GOFLAGS=-mod=mod", "GOPROXY=off", "GOSUMDB=off", "GOTOOLCHAIN=local")
		if o, err := c.Output(); err == nil && strings.TrimSpace(string(o)) != "" {
			pkgDir = strings.TrimSpace(string(o))
		}
	}
	out, _ := runReplayTest(repo, field("replay-package"), pkgDir, src)
	fmt.Printf("=== re-run on %s ===\n%s\n", repo, out)
	if strings.Contains(out, "WV-REPLAY-PANIC") {
		return 1
	}
	// a recorded postcondition violation: the results that made the clause false are returned again
	var expect []string
	for _, l := range strings.Split(text, "\n") {
		if strings.HasPrefix(l, "replay-expect: ") {
			expect = append(expect, strings.TrimPrefix(l, "replay-expect: "))
		}
	}
	if len(expect) > 0 {
		got := resultLines(out)
		same := len(got) == len(expect)
		for i := range expect {
			if same && got[i] != expect[i] {
				same = false
			}
		}
		if same {
			fmt.Println("the real function returns the recorded results again: the clause is still violated on this input")
			return 1
		}
		fmt.Println("the real function no longer returns the recorded results on this input")
	}
	return 0
}
