package main

import (
	"fmt"
	"go/token"
	"go/types"
	"os"
	"path/filepath"
	"sort"
	"strings"

	"golang.org/x/tools/go/packages"
	"golang.org/x/tools/go/ssa"
	"golang.org/x/tools/go/ssa/ssautil"
)

const repoModule = "github.com/vx-labs/wasp/v4"

type accInfo struct {
	name string
	sort Sort
}

type Engine struct {
	repo   string
	fset   *token.FileSet
	prog   *ssa.Program
	pkgs   []*packages.Package
	spkgs  map[string]*ssa.Package
	u      *Universe
	allFns map[string]*ssa.Function // by String()

	contracts     map[string]*Contract // function key -> contract
	loopContracts map[string]*Contract // "<fnkey>#k"
	specFuns      map[string]*Contract
	axioms        []*Contract
	lemmas        []*Contract
	ghostVars     map[string]Sort
	specSorts     map[string]Sort
	specAccessors map[string]accInfo
	chanInvs      map[string]*Contract
	callbacks     map[string]*Contract
	callsites     map[string][]*Contract // "caller|callee" -> extra preconditions
	impls         map[string]*Contract   // "fn as iface" -> implements directive
	footprints    map[string][]string    // opaque spec function -> heap names its body reads
	fpBusy        map[string]bool
	immutable     map[string]bool        // heap names of fields never written after construction (checked syntactically)
	guards        map[string]string      // field heap name -> name of the mutex field of the same struct that guards it
	ghostHooks    map[string][]*Contract // "<function>|call:<callee>" / "<function>|delete" / "<function>|mapupdate" -> ghost assignments
	globalConsts  map[string]string      // "<pkgpath>.<Name>" -> integer literal (package variables that are never reassigned)
	trustedList   []string
	contractFiles []string

	heapSortHint map[string]Sort
	driftSeen    map[string]bool
	driftNotes   []string
	trigSorts    map[string]Sort
	heapTypeHint map[string]types.Type
	modsMemo     map[*ssa.Function]map[string]bool
	modsBusy     map[*ssa.Function]bool

	globals    map[*ssa.Global]int
	funcs      map[*ssa.Function]int
	ifaceTypes map[string]types.Type
	cardSorts  map[Sort]bool
	ufs        map[string]string
	extraDecls []string

	needStrcat, needSubstr, needStrOf, needStrBytes bool
}

func goEnv() []string {
	return append(os.Environ(), "GOFLAGS=-mod=mod", "GOPROXY=off", "GOSUMDB=off", "GOTOOLCHAIN=local")
}

var loadPatterns = []string{
	"./crdt", "./topics", "./subscriptions", "./wasp", "./wasp/ack", "./wasp/expiration", "./wasp/format",
	"./wasp/sessions", "./wasp/auth", "./wasp/distributed", "./wasp/messages", "./wasp/api", "./cmd/wasp",
	"github.com/vx-labs/mqtt-protocol/packet", "github.com/vx-labs/mqtt-protocol/decoder", "github.com/vx-labs/mqtt-protocol/encoder",
}

func NewEngine(repo string) (*Engine, error) {
	e := &Engine{repo: repo, u: NewUniverse(), contracts: map[string]*Contract{}, loopContracts: map[string]*Contract{},
		specFuns: map[string]*Contract{}, ghostVars: map[string]Sort{}, specSorts: map[string]Sort{}, specAccessors: map[string]accInfo{},
		chanInvs: map[string]*Contract{}, callbacks: map[string]*Contract{}, callsites: map[string][]*Contract{}, impls: map[string]*Contract{}, footprints: map[string][]string{}, fpBusy: map[string]bool{}, immutable: map[string]bool{}, guards: map[string]string{}, ghostHooks: map[string][]*Contract{}, globalConsts: map[string]string{}, heapSortHint: map[string]Sort{}, trigSorts: map[string]Sort{}, heapTypeHint: map[string]types.Type{},
		modsMemo: map[*ssa.Function]map[string]bool{}, modsBusy: map[*ssa.Function]bool{}, globals: map[*ssa.Global]int{},
		funcs: map[*ssa.Function]int{}, ifaceTypes: map[string]types.Type{}, cardSorts: map[Sort]bool{}, ufs: map[string]string{},
		allFns: map[string]*ssa.Function{}, spkgs: map[string]*ssa.Package{}}
	cfg := &packages.Config{Mode: packages.LoadSyntax, Dir: repo, BuildFlags: []string{"-tags=verif"}, Env: goEnv()}
	pkgs, err := packages.Load(cfg, loadPatterns...)
	if err != nil {
		return nil, err
	}
	nerr := 0
	for _, p := range pkgs {
		for _, er := range p.Errors {
			fmt.Fprintf(os.Stderr, "load error: %v\n", er)
			nerr++
		}
	}
	if nerr > 0 {
		return nil, fmt.Errorf("%d package errors: /repo does not type-check", nerr)
	}
	e.pkgs = pkgs
	prog, spkgs := ssautil.Packages(pkgs, ssa.GlobalDebug)
	prog.Build()
	e.prog = prog
	e.fset = prog.Fset
	for _, sp := range spkgs {
		if sp != nil {
			e.spkgs[sp.Pkg.Path()] = sp
		}
	}
	for fn := range ssautil.AllFunctions(prog) {
		e.allFns[fn.String()] = fn
	}
	// methods of unexported types that are never converted to an interface are not in the runtime type set
	var addFn func(fn *ssa.Function)
	addFn = func(fn *ssa.Function) {
		if fn == nil {
			return
		}
		if _, ok := e.allFns[fn.String()]; ok {
			return
		}
		e.allFns[fn.String()] = fn
		for _, a := range fn.AnonFuncs {
			addFn(a)
		}
	}
	for _, sp := range e.spkgs {
		for _, m := range sp.Members {
			switch x := m.(type) {
			case *ssa.Function:
				addFn(x)
			case *ssa.Type:
				for _, t := range []types.Type{x.Type(), types.NewPointer(x.Type())} {
					ms := prog.MethodSets.MethodSet(t)
					for i := 0; i < ms.Len(); i++ {
						addFn(prog.MethodValue(ms.At(i)))
					}
				}
			}
		}
	}
	for _, fn := range e.allFns {
		for _, a := range fn.AnonFuncs {
			addFn(a)
		}
	}
	return e, nil
}

// LoadContracts reads /repo/**/contracts_verif.go and /verif/specs/*.spec .
// skipDrift: a contract of a /repo contract file names a function (closure, loop owner, callee) that no longer exists in the
// code. The contract is set aside with a warning (the functions that remain are still checked); it is not a load error.
func (e *Engine) skipDrift(c *Contract, err error) bool {
	if err == nil || !strings.Contains(err.Error(), "resolves to no function") || strings.HasSuffix(c.File, ".spec") {
		return false
	}
	msg := fmt.Sprintf("contract drift: %v", err)
	if !e.driftSeen[msg] {
		if e.driftSeen == nil {
			e.driftSeen = map[string]bool{}
		}
		e.driftSeen[msg] = true
		fmt.Fprintln(os.Stderr, "warning:", msg)
		e.driftNotes = append(e.driftNotes, msg)
	}
	return true
}

func (e *Engine) LoadContracts(specDir string) error {
	var all []*Contract
	specs, _ := filepath.Glob(filepath.Join(specDir, "*.spec"))
	sort.Strings(specs)
	for _, sp := range specs {
		cs, err := ParseContractFile(sp, "")
		if err != nil {
			return err
		}
		e.contractFiles = append(e.contractFiles, sp)
		all = append(all, cs...)
	}
	for _, p := range e.pkgs {
		for _, gf := range p.GoFiles {
			if filepath.Base(gf) != "contracts_verif.go" {
				continue
			}
			if err := checkCommentOnly(gf); err != nil {
				return err
			}
			cs, err := ParseContractFile(gf, p.PkgPath)
			if err != nil {
				return err
			}
			e.contractFiles = append(e.contractFiles, gf)
			all = append(all, cs...)
		}
	}
	// declarations first
	for _, c := range all {
		switch c.Kind {
		case "sort":
			e.specSorts[c.Name] = Sort(c.Name)
			e.u.extraSorts[c.Name] = true
		case "ghostvar":
			e.ghostVars[c.Name] = Sort(c.Sort)
			e.heapSortHint["G_"+sanitize(c.Name)] = Sort(c.Sort)
		case "ghostfield":
			// ghost field T.name sort
			i := strings.LastIndex(c.Name, ".")
			tn, fnm := c.Name[:i], c.Name[i+1:]
			t := e.lookupTypeIn(tn, c.Pkg)
			if t == nil {
				return fmt.Errorf("%s:%d: unknown type %s", c.File, c.Line, tn)
			}
			key := TypeKey(t)
			gs := Sort(c.Sort)
			var gt types.Type
			switch c.Sort {
			case "Int", "int":
				gs, gt = SInt, types.Typ[types.Int]
			case "Bool", "bool":
				gs, gt = SBool, types.Typ[types.Bool]
			case "Str", "string":
				gs, gt = SStr, types.Typ[types.String]
			default:
				if _, isSpec := e.specSorts[c.Sort]; !isSpec && !strings.HasPrefix(c.Sort, "(") {
					if t2 := e.lookupTypeIn(c.Sort, c.Pkg); t2 != nil {
						gs, gt = e.u.SortOf(t2), t2
					}
				}
			}
			e.u.ghostFlds[key] = append(e.u.ghostFlds[key], ghostFieldDecl{strings.TrimPrefix(fnm, "#"), gs, gt})
		case "pred", "fun":
			if _, dup := e.specFuns[c.Name]; dup {
				return fmt.Errorf("%s:%d: duplicate spec function %s", c.File, c.Line, c.Name)
			}
			e.specFuns[c.Name] = c
		case "axiom":
			e.axioms = append(e.axioms, c)
		case "lemma":
			e.lemmas = append(e.lemmas, c)
		}
	}
	for _, c := range all {
		switch c.Kind {
		case "func", "trusted":
			key, err := e.resolveFuncName(c)
			if err != nil {
				if e.skipDrift(c, err) {
					continue
				}
				return err
			}
			if prev, dup := e.contracts[key]; dup {
				if prev.Kind == "trusted" && c.Kind == "trusted" && len(prev.Params) == len(c.Params) {
					// several packages may state what they assume of one external function (each about its own types):
					// the assumptions add up. Parameter and result names must agree.
					for i := range c.Params {
						if c.Params[i].Name != prev.Params[i].Name {
							return fmt.Errorf("%s:%d: trusted contracts for %s name their parameters differently", c.File, c.Line, key)
						}
					}
					for _, cl := range c.Requires {
						cl2 := *cl
						cl2.Idx = len(prev.Requires) + 1
						prev.Requires = append(prev.Requires, &cl2)
					}
					for _, cl := range c.Ensures {
						cl2 := *cl
						cl2.Idx = len(prev.Ensures) + 1
						prev.Ensures = append(prev.Ensures, &cl2)
					}
					for _, m := range c.Modifies {
						if c.Pkg != prev.Pkg && c.Pkg != "" {
							m = "@@" + c.Pkg + "@@" + m // type names in this item resolve in the package that wrote it
						}
						dupm := false
						for _, pm := range prev.Modifies {
							if pm == m {
								dupm = true
							}
						}
						if !dupm {
							prev.Modifies = append(prev.Modifies, m)
						}
					}
					prev.HasMod = prev.HasMod || c.HasMod
					prev.Records = append(prev.Records, c.Records...)
					continue
				}
				return fmt.Errorf("%s:%d: duplicate contract for %s", c.File, c.Line, key)
			}
			e.contracts[key] = c
			if c.Kind == "trusted" {
				e.trustedList = append(e.trustedList, key)
			}
		case "loop":
			i := strings.LastIndex(c.Name, "#")
			if i < 0 {
				return fmt.Errorf("%s:%d: loop name needs #k", c.File, c.Line)
			}
			fc := *c
			fc.Name = c.Name[:i]
			key, err := e.resolveFuncName(&fc)
			if err != nil {
				if e.skipDrift(c, err) {
					continue
				}
				return err
			}
			e.loopContracts[key+c.Name[i:]] = c
		case "chan":
			// chan ElemType(v)
			name := c.Name
			v := "v"
			if i := strings.Index(name, "("); i >= 0 {
				v = strings.TrimSuffix(name[i+1:], ")")
				name = strings.TrimSpace(name[:i])
			}
			t := e.lookupTypeIn(name, c.Pkg)
			if t == nil {
				return fmt.Errorf("%s:%d: chan: unknown element type %s", c.File, c.Line, name)
			}
			c.Params = []Param{{Name: v}}
			e.chanInvs[types.TypeString(t, nil)] = c
		case "callsite":
			cc := *c
			cc.Name = c.Caller
			caller, err := e.resolveFuncName(&cc)
			if err != nil {
				if e.skipDrift(c, err) {
					continue
				}
				return err
			}
			callee, err := e.resolveFuncName(c)
			if err != nil {
				// a callback (assume-call) named by its struct field or parameter
				if _, err2 := e.resolveCallbackName(c); err2 != nil {
					if e.skipDrift(c, err) {
						continue
					}
					return err
				}
				callee = c.Name
			}
			e.callsites[caller+"|"+callee] = append(e.callsites[caller+"|"+callee], c)
		case "global-const":
			// global-const NAME VALUE : a package-level variable that is initialised once and never assigned again
			f := strings.Fields(c.Name)
			if len(f) != 2 {
				return fmt.Errorf("%s:%d: global-const NAME VALUE", c.File, c.Line)
			}
			e.globalConsts[c.Pkg+"."+f[0]] = f[1]
		case "ghost-after":
			// ghost-after FUNC call CALLEE | ghost-after FUNC delete | ghost-after FUNC mapupdate
			f := strings.Fields(c.Name)
			if len(f) < 2 {
				return fmt.Errorf("%s:%d: ghost-after needs FUNC and an event", c.File, c.Line)
			}
			fc := *c
			fc.Name = f[0]
			fk, err := e.resolveFuncName(&fc)
			if err != nil {
				if e.skipDrift(c, err) {
					continue
				}
				return err
			}
			ev := f[1]
			if ev == "callparam" && len(f) >= 3 {
				ev = "callparam:" + f[2]
			}
			if ev == "call" {
				if len(f) < 3 {
					return fmt.Errorf("%s:%d: ghost-after FUNC call CALLEE", c.File, c.Line)
				}
				cc := *c
				cc.Name = f[2]
				ck, err := e.resolveFuncName(&cc)
				if err != nil {
					if e.skipDrift(c, err) {
						continue
					}
					return err
				}
				ev = "call:" + ck
			}
			e.ghostHooks[fk+"|"+ev] = append(e.ghostHooks[fk+"|"+ev], c)
		case "guarded":
			// guarded T.f1, f2 by mtx
			j := strings.Index(c.Name, " by ")
			i := strings.Index(c.Name, ".")
			if i < 0 || j < 0 {
				return fmt.Errorf("%s:%d: guarded needs T.field by mutexfield", c.File, c.Line)
			}
			t := e.lookupTypeIn(strings.TrimSpace(c.Name[:i]), c.Pkg)
			if t == nil {
				return fmt.Errorf("%s:%d: guarded: unknown type %s", c.File, c.Line, c.Name[:i])
			}
			_, st := derefStruct(t)
			if st == nil {
				return fmt.Errorf("%s:%d: guarded: %s is not a struct", c.File, c.Line, c.Name[:i])
			}
			mtx := strings.TrimSpace(c.Name[j+4:])
			for _, fn := range strings.Split(c.Name[i+1:j], ",") {
				fn = strings.TrimSpace(fn)
				ok := false
				for k := 0; k < st.NumFields(); k++ {
					if st.Field(k).Name() == fn {
						ok = true
					}
				}
				if !ok {
					return fmt.Errorf("%s:%d: guarded: no field %s", c.File, c.Line, fn)
				}
				e.guards["F_"+TypeKey(t)+"_"+sanitize(fn)] = mtx
			}
		case "immutable":
			// immutable T.f1, f2, ...
			i := strings.Index(c.Name, ".")
			if i < 0 {
				return fmt.Errorf("%s:%d: immutable needs T.field", c.File, c.Line)
			}
			t := e.lookupTypeIn(strings.TrimSpace(c.Name[:i]), c.Pkg)
			if t == nil {
				return fmt.Errorf("%s:%d: immutable: unknown type %s", c.File, c.Line, c.Name[:i])
			}
			_, st := derefStruct(t)
			if st == nil {
				return fmt.Errorf("%s:%d: immutable: %s is not a struct", c.File, c.Line, c.Name[:i])
			}
			for _, fn := range strings.Split(c.Name[i+1:], ",") {
				fn = strings.TrimSpace(fn)
				found := false
				for k := 0; k < st.NumFields(); k++ {
					if st.Field(k).Name() == fn {
						found = true
						e.heapSortHint["F_"+TypeKey(t)+"_"+sanitize(fn)] = ArrSort(SInt, e.u.SortOf(st.Field(k).Type()))
					}
				}
				if !found {
					return fmt.Errorf("%s:%d: immutable: no field %s in %s", c.File, c.Line, fn, c.Name[:i])
				}
				e.immutable["F_"+TypeKey(t)+"_"+sanitize(fn)] = true
			}
		case "implements":
			fk, err := e.resolveFuncName(c)
			if err != nil {
				if e.skipDrift(c, err) {
					continue
				}
				return err
			}
			ic := *c
			ic.Name = c.As
			ik, err := e.resolveFuncName(&ic)
			if err != nil {
				if e.skipDrift(c, err) {
					continue
				}
				return err
			}
			c.Name, c.As = fk, ik
			e.impls[unitNameS(fk)+" as "+unitNameS(ik)] = c
		case "assume-call":
			key, err := e.resolveCallbackName(c)
			if err != nil {
				if e.skipDrift(c, err) {
					continue
				}
				return err
			}
			e.callbacks[key] = c
		}
	}
	// a callsite contract is only checked where the callee is applied through a contract: a callee without one would make the
	// callsite clauses silently unchecked
	for key, cs := range e.callsites {
		callee := key[strings.Index(key, "|")+1:]
		if e.contracts[callee] == nil && e.callbacks[callee] == nil {
			isCb := false
			if k, err := e.resolveCallbackName(cs[0]); err == nil && e.callbacks[k] != nil {
				isCb = true
			}
			if !isCb {
				return fmt.Errorf("%s:%d: callsite contract for %s, which has no contract of its own (give it one, `modifies nothing` at least)", cs[0].File, cs[0].Line, callee)
			}
		}
	}
	return e.checkImmutable()
}

// checkImmutable: a field declared immutable may only be stored to in the function that allocated the object;
// a global-const is only stored to by its package initialiser.
func (e *Engine) checkImmutable() error {
	for _, fn := range e.allFns {
		if fn.Name() == "init" || strings.HasPrefix(fn.Name(), "init#") {
			continue
		}
		for _, b := range fn.Blocks {
			for _, ins := range b.Instrs {
				if st, ok := ins.(*ssa.Store); ok {
					if g, ok := st.Addr.(*ssa.Global); ok && g.Pkg != nil {
						if _, isConst := e.globalConsts[g.Pkg.Pkg.Path()+"."+g.Name()]; isConst {
							return fmt.Errorf("%s: package variable %s is declared global-const but assigned in %s", e.fset.Position(st.Pos()), g.Name(), fn.String())
						}
					}
				}
			}
		}
	}
	if len(e.immutable) == 0 {
		return nil
	}
	for _, fn := range e.allFns {
		if fn.Pkg == nil && fn.Parent() == nil {
			continue
		}
		for _, b := range fn.Blocks {
			for _, ins := range b.Instrs {
				st, ok := ins.(*ssa.Store)
				if !ok {
					continue
				}
				r := e.rootOf(st.Addr)
				if r.fresh {
					continue
				}
				tmp := map[string]bool{}
				e.storeModsRoot(r, tmp, nil)
				for k := range tmp {
					if e.immutable[k] {
						return fmt.Errorf("%s: field declared immutable (%s) is written in %s outside the allocating function", e.fset.Position(st.Pos()), k, fn.String())
					}
				}
			}
		}
	}
	return nil
}

func checkCommentOnly(path string) error {
	data, err := os.ReadFile(path)
	if err != nil {
		return err
	}
	seenPkg := false
	for i, l := range strings.Split(string(data), "\n") {
		t := strings.TrimSpace(l)
		if t == "" || strings.HasPrefix(t, "//") {
			continue
		}
		if !seenPkg && strings.HasPrefix(t, "package ") {
			seenPkg = true
			continue
		}
		return fmt.Errorf("%s:%d: contract files must contain only comments (found %q)", path, i+1, t)
	}
	return nil
}

// resolveFuncName maps a contract header name to the key used for lookup.
func (e *Engine) resolveFuncName(c *Contract) (string, error) {
	name := c.Name
	cands := []string{name}
	if c.Pkg != "" {
		if strings.HasPrefix(name, "(*") {
			cands = append(cands, "(*"+c.Pkg+"."+name[2:])
		} else if strings.HasPrefix(name, "(") {
			cands = append(cands, "("+c.Pkg+"."+name[1:])
		} else {
			cands = append(cands, c.Pkg+"."+name)
		}
	}
	// short package names: "(*sync.Mutex).Lock", "api.X" -> try every loaded package with that name
	for _, cand := range cands {
		if _, ok := e.allFns[cand]; ok {
			return cand, nil
		}
	}
	// interface methods and external functions without SSA: accept when a types object exists
	for _, cand := range append([]string{}, cands...) {
		if e.lookupMethodOrFunc(cand) {
			return cand, nil
		}
	}
	// expand a short package qualifier
	if exp := e.expandQualifier(name); exp != "" && exp != name {
		if _, ok := e.allFns[exp]; ok || e.lookupMethodOrFunc(exp) {
			return exp, nil
		}
	}
	return "", fmt.Errorf("%s:%d: contract names %q, which resolves to no function (tried %v)", c.File, c.Line, name, cands)
}

func (e *Engine) allTypesPackages() map[string]*types.Package {
	out := map[string]*types.Package{}
	var visit func(p *types.Package)
	visit = func(p *types.Package) {
		if out[p.Path()] != nil {
			return
		}
		out[p.Path()] = p
		for _, i := range p.Imports() {
			visit(i)
		}
	}
	for _, p := range e.pkgs {
		visit(p.Types)
	}
	return out
}

var typesPkgCache map[string]*types.Package

func (e *Engine) typesPkgs() map[string]*types.Package {
	if typesPkgCache == nil {
		typesPkgCache = e.allTypesPackages()
	}
	return typesPkgCache
}

// expandQualifier rewrites "(*pkg.T).m" / "pkg.f" / "(pkg.I).m" with a short package name to the full path.
func (e *Engine) expandQualifier(name string) string {
	prefix, rest := "", name
	switch {
	case strings.HasPrefix(name, "(*"):
		prefix, rest = "(*", name[2:]
	case strings.HasPrefix(name, "("):
		prefix, rest = "(", name[1:]
	}
	i := strings.Index(rest, ".")
	if i < 0 {
		return ""
	}
	short := rest[:i]
	for path, p := range e.typesPkgs() {
		if p.Name() == short && (strings.HasPrefix(path, repoModule) || !strings.Contains(path, "/") || true) {
			cand := prefix + path + rest[i:]
			if _, ok := e.allFns[cand]; ok || e.lookupMethodOrFunc(cand) {
				return cand
			}
		}
	}
	return ""
}

// lookupMethodOrFunc reports whether key names a function, method or interface method in a loaded types package.
func (e *Engine) lookupMethodOrFunc(key string) bool {
	recv, name := "", key
	if strings.HasPrefix(key, "(") {
		j := strings.Index(key, ").")
		if j < 0 {
			return false
		}
		recv = strings.TrimPrefix(key[1:j], "*")
		name = key[j+2:]
		i := strings.LastIndex(recv, ".")
		if i < 0 {
			return false
		}
		p := e.typesPkgs()[recv[:i]]
		if p == nil {
			return false
		}
		obj := p.Scope().Lookup(recv[i+1:])
		if obj == nil {
			return false
		}
		tn, ok := obj.(*types.TypeName)
		if !ok {
			return false
		}
		o, _, _ := types.LookupFieldOrMethod(types.NewPointer(tn.Type()), true, p, name)
		if o == nil {
			o, _, _ = types.LookupFieldOrMethod(tn.Type(), true, p, name)
		}
		_, isFn := o.(*types.Func)
		return isFn
	}
	i := strings.LastIndex(name, ".")
	if i < 0 {
		return false
	}
	p := e.typesPkgs()[name[:i]]
	if p == nil {
		return false
	}
	_, ok := p.Scope().Lookup(name[i+1:]).(*types.Func)
	return ok
}

func (e *Engine) contractFor(fn *ssa.Function) *Contract {
	if c, ok := e.contracts[fn.String()]; ok {
		return c
	}
	// methods promoted through wrappers / bound methods share the declared function's contract
	if fn.Synthetic != "" && fn.Object() != nil {
		if f2 := e.prog.FuncValue(fn.Object().(*types.Func)); f2 != nil && f2 != fn {
			if c, ok := e.contracts[f2.String()]; ok {
				return c
			}
		}
	}
	return nil
}

func (e *Engine) loopContract(fn *ssa.Function, k int) *Contract {
	return e.loopContracts[fmt.Sprintf("%s#%d", fn.String(), k)]
}

// lookupType resolves "T", "*T", "pkg.T", "[]T" relative to the package of fn.
func (e *Engine) lookupType(name string, fn *ssa.Function) types.Type {
	pkg := ""
	if fn != nil && fn.Pkg != nil {
		pkg = fn.Pkg.Pkg.Path()
	} else if fn != nil && fn.Parent() != nil && fn.Parent().Pkg != nil {
		pkg = fn.Parent().Pkg.Pkg.Path()
	}
	return e.lookupTypeIn(name, pkg)
}

func (e *Engine) lookupTypeIn(name, pkg string) types.Type {
	name = strings.TrimSpace(name)
	if strings.HasPrefix(name, "*") {
		if t := e.lookupTypeIn(name[1:], pkg); t != nil {
			return types.NewPointer(t)
		}
		return nil
	}
	if strings.HasPrefix(name, "[]") {
		if t := e.lookupTypeIn(name[2:], pkg); t != nil {
			return types.NewSlice(t)
		}
		return nil
	}
	for _, b := range types.Typ {
		if b.Name() == name {
			return b
		}
	}
	if name == "byte" {
		return types.Typ[types.Uint8]
	}
	if name == "error" {
		return types.Universe.Lookup("error").Type()
	}
	if i := strings.LastIndex(name, "."); i >= 0 {
		q, n := name[:i], name[i+1:]
		for path, p := range e.typesPkgs() {
			if path == q || p.Name() == q {
				if o, ok := p.Scope().Lookup(n).(*types.TypeName); ok {
					return o.Type()
				}
			}
		}
		return nil
	}
	if p := e.typesPkgs()[pkg]; p != nil {
		if o, ok := p.Scope().Lookup(name).(*types.TypeName); ok {
			return o.Type()
		}
	}
	return nil
}

// ---------------------------------------------------------------------------------------
// globals, function references, interface facts

func (e *Engine) globalRef(g *ssa.Global) Term {
	id, ok := e.globals[g]
	if !ok {
		id = len(e.globals) + 1
		e.globals[g] = id
	}
	return IntLit(int64(-id))
}

func (e *Engine) funcRef(fn *ssa.Function) Term {
	id, ok := e.funcs[fn]
	if !ok {
		id = len(e.funcs) + 1
		e.funcs[fn] = id
	}
	return IntLit(int64(-1000000 - id))
}

// globalConst: package-level `var ErrX = errors.New(...)` sentinels are treated as distinct
// non-nil constants (assumption A-GLOBALS: never reassigned).
func (e *Engine) globalConst(un *Unit, g *ssa.Global) (Term, bool) {
	if v, ok := e.globalConsts[g.Pkg.Pkg.Path()+"."+g.Name()]; ok {
		un.note("package variable " + g.Name() + " is treated as the constant " + v + " (A-GLOBALS: initialised once, never reassigned; checked: no store to it exists)")
		return IntLitS(v), true
	}
	pt := g.Type().Underlying().(*types.Pointer)
	if types.Identical(pt.Elem(), types.Universe.Lookup("error").Type()) && strings.HasPrefix(g.Name(), "Err") {
		id := e.globalRef(g)
		un.note("package-level error sentinels (" + g.Name() + ", ...) are constants: distinct, non-nil, never reassigned (A-GLOBALS)")
		return IfaceMk(IntLit(999), id), true
	}
	return Term{}, false
}

func (e *Engine) globalByName(f *Frame, name string, st *State) (Val, bool) {
	// pkg.Name or Name in the current package
	var pkgs []*ssa.Package
	q := ""
	if i := strings.Index(name, "."); i >= 0 {
		q, name = name[:i], name[i+1:]
	}
	for _, sp := range e.spkgs {
		if q == "" {
			if f.pkgPath != "" {
				if sp.Pkg.Path() == f.pkgPath {
					pkgs = append(pkgs, sp)
				}
			} else if f.fn != nil && (f.fn.Pkg == sp || (f.fn.Parent() != nil && f.fn.Parent().Pkg == sp)) {
				pkgs = append(pkgs, sp)
			}
		} else if sp.Pkg.Name() == q {
			pkgs = append(pkgs, sp)
		}
	}
	for _, sp := range pkgs {
		switch m := sp.Members[name].(type) {
		case *ssa.Global:
			if t, ok := e.globalConst(f.un, m); ok {
				return Val{T: t, Go: m.Type().Underlying().(*types.Pointer).Elem()}, true
			}
			lv := f.un.lvOfPointer(e.globalRef(m), m.Type())
			return Val{T: f.un.readLV(lv, st), Go: lv.Typ}, true
		case *ssa.NamedConst:
			c := ssa.NewConst(m.Value.Value, m.Type())
			return f.constVal(c), true
		}
	}
	return Val{}, false
}

func (e *Engine) implements(iface types.Type, tag Term) Term {
	k := "impl_" + TypeKey(iface)
	e.ifaceTypes[k] = iface
	return mk(SBool, k, tag)
}

func (e *Engine) card(ks Sort, dom Term) Term {
	e.cardSorts[ks] = true
	return mk(SInt, "card_"+sanitize(string(ks)), dom)
}

func (e *Engine) declareUF(name string, args []Sort, res Sort) {
	var as []string
	for _, a := range args {
		as = append(as, string(a))
	}
	d := fmt.Sprintf("(declare-fun uf_%s (%s) %s)", name, strings.Join(as, " "), res)
	if old, ok := e.ufs[name]; ok && old != d {
		panic(unsupported{fmt.Sprintf("uninterpreted %s used at two signatures", name)})
	}
	e.ufs[name] = d
}

// Prelude: universe prelude + engine-level declarations.
func (e *Engine) Prelude() string {
	var b strings.Builder
	b.WriteString(e.u.Prelude())
	ks := make([]string, 0, len(e.cardSorts))
	for s := range e.cardSorts {
		ks = append(ks, string(s))
	}
	sort.Strings(ks)
	for _, s := range ks {
		n := "card_" + sanitize(s)
		arr := "(Array " + s + " Bool)"
		fmt.Fprintf(&b, "(declare-fun %s (%s) Int)\n(declare-fun wit_%s (%s) %s)\n", n, arr, n, arr, s)
		fmt.Fprintf(&b, "(assert (forall ((d %s)) (! (>= (%s d) 0) :pattern ((%s d)))))\n", arr, n, n)
		fmt.Fprintf(&b, "(assert (forall ((d %s)) (! (=> (> (%s d) 0) (select d (wit_%s d))) :pattern ((%s d)))))\n", arr, n, n, n)
		fmt.Fprintf(&b, "(assert (forall ((d %s) (k %s)) (! (=> (select d k) (> (%s d) 0)) :pattern ((%s d) (select d k)))))\n", arr, s, n, n)
		fmt.Fprintf(&b, "(assert (= (%s ((as const %s) false)) 0))\n", n, arr)
		fmt.Fprintf(&b, "(assert (forall ((d %s) (k %s)) (! (= (%s (store d k true)) (ite (select d k) (%s d) (+ (%s d) 1))) :pattern ((%s (store d k true))))))\n", arr, s, n, n, n, n)
		fmt.Fprintf(&b, "(assert (forall ((d %s) (k %s)) (! (= (%s (store d k false)) (ite (select d k) (- (%s d) 1) (%s d))) :pattern ((%s (store d k false))))))\n", arr, s, n, n, n, n)
	}
	if e.needStrcat {
		b.WriteString("(declare-fun strcat (Str Str) Str)\n")
		b.WriteString("(assert (forall ((a Str) (b Str)) (! (=> (<= (+ (strlen a) (strlen b)) 1152921504606846976) (= (strlen (strcat a b)) (+ (strlen a) (strlen b)))) :pattern ((strcat a b)))))\n")
		b.WriteString("(assert (forall ((a Str) (b Str) (i Int)) (! (= (strat (strcat a b) i) (ite (< i (strlen a)) (strat a i) (strat b (- i (strlen a))))) :pattern ((strat (strcat a b) i)))))\n")
	}
	if e.needSubstr {
		b.WriteString("(declare-fun substr (Str Int Int) Str)\n")
		b.WriteString("(assert (forall ((a Str) (l Int) (h Int)) (! (=> (and (<= 0 l) (<= l h) (<= h (strlen a))) (= (strlen (substr a l h)) (- h l))) :pattern ((substr a l h)))))\n")
		b.WriteString("(assert (forall ((a Str) (l Int) (h Int) (i Int)) (! (=> (and (<= 0 l) (<= 0 i) (< i (- h l))) (= (strat (substr a l h) i) (strat a (+ l i)))) :pattern ((strat (substr a l h) i)))))\n")
	}
	if e.needStrOf {
		b.WriteString("(declare-fun str_of ((Array Int Int) Int Int) Str)\n")
		b.WriteString("(assert (forall ((r (Array Int Int)) (o Int) (n Int)) (! (=> (and (>= n 0) (<= n 1152921504606846976)) (= (strlen (str_of r o n)) n)) :pattern ((str_of r o n)))))\n")
		b.WriteString("(assert (forall ((r (Array Int Int)) (o Int) (n Int) (i Int)) (! (=> (and (<= 0 i) (< i n) (<= 0 (select r (+ o i))) (< (select r (+ o i)) 256)) (= (strat (str_of r o n) i) (select r (+ o i)))) :pattern ((strat (str_of r o n) i)))))\n")
		if e.needSubstr {
			b.WriteString("(assert (forall ((r (Array Int Int)) (o Int) (n Int) (l Int) (h Int)) (! (=> (and (<= 0 l) (<= l h) (<= h n)) (= (substr (str_of r o n) l h) (str_of r (+ o l) (- h l)))) :pattern ((substr (str_of r o n) l h)))))\n")
		}
	}
	us := make([]string, 0, len(e.ufs))
	for k := range e.ufs {
		us = append(us, k)
	}
	sort.Strings(us)
	for _, k := range us {
		b.WriteString(e.ufs[k] + "\n")
		if strings.HasPrefix(k, "trg_") {
			// trigger markers hold of everything: they only keep pattern terms alive in split goals
			srt := e.trigSorts[k]
			fmt.Fprintf(&b, "(assert (forall ((x!tg %s)) (! (uf_%s x!tg) :pattern ((uf_%s x!tg)))))\n", srt, k, k)
		}
	}
	is := make([]string, 0, len(e.ifaceTypes))
	for k := range e.ifaceTypes {
		is = append(is, k)
	}
	sort.Strings(is)
	for _, k := range is {
		fmt.Fprintf(&b, "(declare-fun %s (Int) Bool)\n", k)
		it := e.ifaceTypes[k].Underlying().(*types.Interface)
		for i, t := range e.u.tagTypes {
			fmt.Fprintf(&b, "(assert (= (%s %d) %v))\n", k, e.u.tagIDs[i], types.Implements(t, it))
		}
	}
	for _, d := range e.extraDecls {
		b.WriteString(d + "\n")
	}
	return b.String()
}

// ---------------------------------------------------------------------------------------
// hooks (channels, special functions) -- filled in by later layers

func (e *Engine) chanInvFor(ch ssa.Value) (*Contract, types.Type) {
	ct, ok := ch.Type().Underlying().(*types.Chan)
	if !ok {
		return nil, nil
	}
	return e.chanInvs[types.TypeString(ct.Elem(), nil)], ct.Elem()
}

// a value sent on a channel must satisfy the channel's invariant ...
func (e *Engine) chanSendHook(f *Frame, x *ssa.Send, st *State) {
	c, et := e.chanInvFor(x.Chan)
	if c == nil || f.pure {
		return
	}
	v := f.val(x.X, st)
	v.Go = et
	for _, inv := range c.Invs {
		g := f.evalClause(inv, map[string]Val{c.Params[0].Name: v}, st, st)
		f.un.obligeNamed(st, fmt.Sprintf("chan:%s#%s@%s", TypeKey(et), inv.label(), f.un.siteTag("chan:"+TypeKey(et), x.Pos())), "channel", inv.Text, f.un.posOf(x.Pos()), g)
	}
}

// ... and a received value may be assumed to satisfy it.
func (e *Engine) chanRecvHook(f *Frame, ch ssa.Value, v Term, st *State) {
	c, et := e.chanInvFor(ch)
	if c == nil {
		return
	}
	for _, inv := range c.Invs {
		f.un.assume(st, f.evalClause(inv, map[string]Val{c.Params[0].Name: {T: v, Go: et}}, st, st))
	}
}

func (e *Engine) selectSendHook(f *Frame, x *ssa.Select, i int, idx Term, st *State) {
	s := x.States[i]
	c, et := e.chanInvFor(s.Chan)
	if c == nil || f.pure {
		return
	}
	v := f.val(s.Send, st)
	v.Go = et
	for _, inv := range c.Invs {
		g := f.evalClause(inv, map[string]Val{c.Params[0].Name: v}, st, st)
		f.un.obligeNamed(st, fmt.Sprintf("chan:%s#%s@%s", TypeKey(et), inv.label(), f.un.siteTag("chan:"+TypeKey(et), x.Pos())), "channel", inv.Text, f.un.posOf(x.Pos()), g)
	}
}

// callbackKey names a function value by where it comes from: "T.field" for a struct field,
// "<function>.param" for a parameter.
func callbackKey(fn *ssa.Function, v ssa.Value) string {
	switch x := v.(type) {
	case *ssa.Field:
		if T, st := derefStruct(x.X.Type()); st != nil {
			return types.TypeString(T, nil) + "." + st.Field(x.Field).Name()
		}
	case *ssa.UnOp:
		if fa, ok := x.X.(*ssa.FieldAddr); ok {
			if T, st := derefStruct(fa.X.Type()); st != nil {
				return types.TypeString(T, nil) + "." + st.Field(fa.Field).Name()
			}
		}
		// a captured function variable (`*f` where f is a free variable of the closure)
		if fv, ok := x.X.(*ssa.FreeVar); ok {
			return fn.String() + "." + fv.Name()
		}
		// a package-level function variable (`var clock = func() ...`): "<pkgpath>.<name>"
		if g, ok := x.X.(*ssa.Global); ok && g.Pkg != nil {
			return g.Pkg.Pkg.Path() + "." + g.Name()
		}
	case *ssa.Parameter:
		return fn.String() + "." + x.Name()
	case *ssa.FreeVar:
		return fn.String() + "." + x.Name()
	}
	return ""
}

func (e *Engine) callbackContract(f *Frame, v ssa.Value) *Contract {
	k := callbackKey(f.fn, v)
	if k == "" {
		return nil
	}
	return e.callbacks[k]
}

// lockHeap returns the ghost heap and key holding the state of the mutex at lv
// (0 = free, 1 = read-locked, 2 = write-locked by this goroutine).
func (un *Unit) lockHeap(lv *LVal) (string, Term) {
	switch lv.Kind {
	case lvObj:
		if len(lv.Path) >= 1 {
			name := "K_" + TypeKey(lv.Root)
			si := un.sinfo(lv.Root)
			t := lv.Root
			for _, i := range lv.Path {
				name += "_" + sanitize(si.fields[i].name)
				t = si.fields[i].typ
				if _, ok := t.Underlying().(*types.Struct); ok {
					si = un.sinfo(t)
				}
			}
			return name, lv.Ref
		}
		return "K_obj_" + TypeKey(lv.Root), lv.Ref
	case lvCell:
		return "K_cell", lv.Ref
	case lvLocal:
		return "K_" + lv.Heap, IntLit(0)
	}
	return "K_elem", Add(Mul(lv.Ref, IntLit(1000003)), lv.Idx)
}

func (e *Engine) special(f *Frame, fn *ssa.Function, args []Val, st *State, pos token.Pos) (Val, bool) {
	name := fn.String()
	un := f.un
	if name == "container/heap.Push" || name == "container/heap.Pop" || name == "container/heap.Init" {
		return e.specialHeap(f, fn.Name(), args, st, pos), true
	}
	if name == "sort.SliceStable" || name == "sort.Slice" {
		return e.specialSort(f, args, st), true
	}
	if strings.HasPrefix(name, "(*sync.Mutex).") || strings.HasPrefix(name, "(*sync.RWMutex).") {
		m := fn.Name()
		if m != "Lock" && m != "Unlock" && m != "RLock" && m != "RUnlock" {
			return Val{}, false
		}
		lv := args[0].LV
		if lv == nil {
			lv = un.lvOfPointer(args[0].T, args[0].Go)
		}
		hn, key := un.lockHeap(lv)
		h := un.H(st, hn, ArrSort(SInt, SInt))
		cur := Select(h, key)
		var want, next int64
		switch m {
		case "Lock":
			want, next = 0, 2
		case "Unlock":
			want, next = 2, 0
		case "RLock":
			want, next = 0, 1
		case "RUnlock":
			want, next = 1, 0
		}
		if !f.pure {
			un.oblige(st, "lock", fmt.Sprintf("%s on %s: lock state must be %d", m, hn, want), pos, Eq(cur, IntLit(want)), false)
		}
		un.setH(st, hn, Store(h, key, IntLit(next)))
		if m == "Lock" || m == "RLock" {
			// every acquisition starts a new critical section of this lock (stale-lookup rule, needLock)
			en := "$ep_" + hn
			eh := un.H(st, en, ArrSort(SInt, SInt))
			un.setH(st, en, Store(eh, key, Add(Select(eh, key), IntLit(1))))
		}
		return Val{}, true
	}
	return Val{}, false
}

func sortStrings(s []string) { sort.Strings(s) }

func bigLE(a, b string) bool {
	// decimal comparison of possibly negative integers
	na, nb := strings.HasPrefix(a, "-"), strings.HasPrefix(b, "-")
	switch {
	case na && !nb:
		return true
	case !na && nb:
		return false
	case na && nb:
		return bigLE(b[1:], a[1:])
	}
	if len(a) != len(b) {
		return len(a) < len(b)
	}
	return a <= b
}

// specialSort models sort.Slice / sort.SliceStable: the slice is permuted (bijection given by
// fresh functions) so that afterwards no later element is `less` than an earlier one; nothing
// outside the slice changes. Trusted (listed in evidence as A-EXT sort).
func (e *Engine) specialSort(f *Frame, args []Val, st *State) Val {
	un := f.un
	u := un.u
	x := args[0]
	if x.Dyn == nil || args[1].Clo == nil {
		f.fail("sort.Slice: slice type or comparison closure not statically known")
	}
	sl, ok := x.Dyn.Underlying().(*types.Slice)
	if !ok {
		f.fail("sort.Slice of non-slice")
	}
	un.note("sort.Slice/SliceStable: trusted model (result is a permutation of the slice, ordered by the given less; elements outside untouched)")
	s, okp := un.ifacePay[x.T.S]
	if !okp {
		s = un.define("sorted_slice", u.Unbox(IVal(x.T), SSlice))
	}
	es := u.SortOf(sl.Elem())
	hn := un.elemHeap(sl.Elem())
	h := un.H(st, hn, ArrSort(SInt, ArrSort(SInt, es)))
	oldRow := un.define("row", Select(h, SBase(s)))
	newRow := un.fresh("sortedrow", ArrSort(SInt, es))
	un.nfresh++
	perm := fmt.Sprintf("perm!%d", un.nfresh)
	inv := fmt.Sprintf("perminv!%d", un.nfresh)
	un.decls = append(un.decls, fmt.Sprintf("(declare-fun %s (Int) Int)", perm), fmt.Sprintf("(declare-fun %s (Int) Int)", inv))
	off, ln := SOff(s), SLen(s)
	hi := un.define("hi", Add(off, ln))
	k := Term{"k", SInt}
	inR := func(t Term) Term { return And(Le(off, t), Lt(t, hi)) }
	pk := mk(SInt, perm, k)
	ik := mk(SInt, inv, k)
	un.assume(st, Forall([]Term{k}, Implies(Not(inR(k)), Eq(Select(newRow, k), Select(oldRow, k))), Select(newRow, k)))
	un.assume(st, Forall([]Term{k}, Implies(inR(k), And(inR(pk), Eq(Select(newRow, k), Select(oldRow, pk)))), Select(newRow, k)))
	un.assume(st, Forall([]Term{k}, Implies(inR(k), And(inR(ik), Eq(mk(SInt, perm, ik), k), Eq(Select(newRow, ik), Select(oldRow, k)))), Select(oldRow, k)))
	un.setH(st, hn, Store(h, SBase(s), newRow))
	// ordering, evaluated on the new heap through the closure
	i, j := Term{"i!srt", SInt}, Term{"j!srt", SInt}
	un.inQuant++
	lessJI := f.applyPure(args[1].Clo, []Val{{T: Sub(j, off), Go: types.Typ[types.Int]}, {T: Sub(i, off), Go: types.Typ[types.Int]}}, st)
	un.inQuant--
	un.assume(st, Forall([]Term{i, j}, Implies(And(Le(off, i), Lt(i, j), Lt(j, hi)), Not(lessJI.T)), Select(newRow, i), Select(newRow, j)))
	return Val{}
}

// resolveCallbackName: "T.field" (struct field of func type) or "<func>.param".
func (e *Engine) resolveCallbackName(c *Contract) (string, error) {
	i := strings.LastIndex(c.Name, ".")
	if i < 0 {
		return "", fmt.Errorf("%s:%d: assume-call needs T.field or func.param", c.File, c.Line)
	}
	owner, member := c.Name[:i], c.Name[i+1:]
	if owner == "var" {
		// a package-level function variable of the contract file's package
		if sp := e.spkgs[c.Pkg]; sp != nil {
			if _, ok := sp.Members[member].(*ssa.Global); ok {
				return c.Pkg + "." + member, nil
			}
		}
		return "", fmt.Errorf("%s:%d: assume-call var.%s: no such package variable", c.File, c.Line, member)
	}
	if t := e.lookupTypeIn(owner, c.Pkg); t != nil {
		if _, st := derefStruct(t); st != nil {
			for k := 0; k < st.NumFields(); k++ {
				if st.Field(k).Name() == member {
					return types.TypeString(t, nil) + "." + member, nil
				}
			}
		}
	}
	fc := *c
	fc.Name = owner
	if key, err := e.resolveFuncName(&fc); err == nil {
		return key + "." + member, nil
	}
	return "", fmt.Errorf("%s:%d: assume-call %s resolves to nothing", c.File, c.Line, c.Name)
}

// specialHeap models container/heap.Init / Push / Pop on a slice type implementing heap.Interface (trusted, A-EXT heap):
// the slice is permuted; Push adds exactly x; Pop removes and returns the root; after each of them no element is Less than
// the root (the heap order, summarised by its consequence for the root; Pop additionally relies on the order having
// been established by Init/Push/Pop before -- the repository only ever touches the slice through these three).
func (e *Engine) specialHeap(f *Frame, op string, args []Val, st *State, pos token.Pos) Val {
	un := f.un
	u := un.u
	h := args[0]
	if h.LV == nil || h.Dyn == nil {
		f.fail("container/heap.%s: the heap is not a statically known location", op)
	}
	pt, ok := h.Dyn.Underlying().(*types.Pointer)
	if !ok {
		f.fail("container/heap.%s: heap argument is not a pointer", op)
	}
	sl, ok := pt.Elem().Underlying().(*types.Slice)
	if !ok {
		f.fail("container/heap.%s: heap is not a slice type", op)
	}
	less := e.prog.LookupMethod(pt.Elem(), nil, "Less")
	if less == nil {
		less = e.prog.LookupMethod(h.Dyn, nil, "Less")
	}
	if less == nil {
		f.fail("container/heap.%s: no Less method", op)
	}
	un.note("container/heap." + op + ": trusted model (permutation of the slice; Push adds x, Pop removes and returns the root; no element is Less than the root afterwards)")
	es := u.SortOf(sl.Elem())
	hn := un.elemHeap(sl.Elem())
	rowS := ArrSort(SInt, es)
	E := un.H(st, hn, ArrSort(SInt, rowS))
	s := un.define("heap", un.readLV(h.LV, st))
	oldRow := un.define("row", Select(E, SBase(s)))
	off, ln := SOff(s), SLen(s)
	var x Term
	newLen := ln
	switch op {
	case "Push":
		x = u.Unbox(IVal(args[1].T), es)
		if p, ok := un.ifacePay[args[1].T.S]; ok {
			x = p
		}
		newLen = Add(ln, IntLit(1))
	case "Pop":
		if !f.pure {
			un.oblige(st, "index", "heap.Pop on an empty heap", pos, Gt(ln, IntLit(0)), true)
		}
		newLen = Sub(ln, IntLit(1))
	}
	// the element fields touched by Swap/Push/Pop of the slice type (index bookkeeping) are havocked as a whole
	if _, sty := derefStruct(sl.Elem()); sty != nil {
		T, _ := derefStruct(sl.Elem())
		si := un.sinfo(T)
		if i := si.fieldIndex("index"); i >= 0 {
			hnI := un.fieldHeap(T, "index")
			un.heapInit(hnI, ArrSort(SInt, si.fields[i].sort))
			st.H[hnI] = un.freshHeap(st, hnI, ArrSort(SInt, si.fields[i].sort))
		}
	}
	ns := un.fresh("heap_after", SSlice)
	f.bumpNext(st)
	un.assume(st, un.typeFacts(types.NewSlice(sl.Elem()), ns, st, 0))
	un.assume(st, Eq(SLen(ns), newLen))
	// the backing array is either the old one or a fresh one (append)
	un.assume(st, Or(Eq(SBase(ns), SBase(s)), Gt(SBase(ns), un.H(st, "$limit", SInt))))
	newRow := un.fresh("heaprow", rowS)
	un.nfresh++
	perm := fmt.Sprintf("hperm!%d", un.nfresh)
	inv := fmt.Sprintf("hperminv!%d", un.nfresh)
	un.decls = append(un.decls, fmt.Sprintf("(declare-fun %s (Int) Int)", perm), fmt.Sprintf("(declare-fun %s (Int) Int)", inv))
	k := Term{"k", SInt}
	noff := SOff(ns)
	inNew := func(t Term) Term { return And(Le(noff, t), Lt(t, Add(noff, newLen))) }
	inOld := func(t Term) Term { return And(Le(off, t), Lt(t, Add(off, ln))) }
	pk, ik := mk(SInt, perm, k), mk(SInt, inv, k)
	switch op {
	case "Init":
		un.assume(st, Forall([]Term{k}, Implies(inNew(k), And(inOld(pk), Eq(mk(SInt, inv, pk), k), Eq(Select(newRow, k), Select(oldRow, pk)))), Select(newRow, k)))
		un.assume(st, Forall([]Term{k}, Implies(inOld(k), And(inNew(ik), Eq(mk(SInt, perm, ik), k), Eq(Select(newRow, ik), Select(oldRow, k)))), Select(oldRow, k)))
	case "Push":
		// every new position holds x or an old element; every old element and x have a new position
		xpos := un.fresh("xpos", SInt)
		un.assume(st, And(inNew(xpos), Eq(Select(newRow, xpos), x)))
		un.assume(st, Forall([]Term{k}, Implies(And(inNew(k), Neq(k, xpos)), And(inOld(pk), Eq(mk(SInt, inv, pk), k), Eq(Select(newRow, k), Select(oldRow, pk)))), Select(newRow, k)))
		un.assume(st, Forall([]Term{k}, Implies(inOld(k), And(inNew(ik), Neq(ik, xpos), Eq(mk(SInt, perm, ik), k), Eq(Select(newRow, ik), Select(oldRow, k)))), Select(oldRow, k)))
	case "Pop":
		root := Select(oldRow, off)
		un.assume(st, Forall([]Term{k}, Implies(inNew(k), And(inOld(pk), Neq(pk, off), Eq(mk(SInt, inv, pk), k), Eq(Select(newRow, k), Select(oldRow, pk)))), Select(newRow, k)))
		un.assume(st, Forall([]Term{k}, Implies(And(inOld(k), Neq(k, off)), And(inNew(ik), Eq(mk(SInt, perm, ik), k), Eq(Select(newRow, ik), Select(oldRow, k)))), Select(oldRow, k)))
		x = root
	}
	E2 := un.H(st, hn, ArrSort(SInt, rowS))
	un.setH(st, hn, Store(E2, SBase(ns), newRow))
	un.writeLV(h.LV, st, ns)
	// heap order: nothing is Less than the root
	i := Term{"i!hp", SInt}
	un.inQuant++
	recv := Val{T: ns, Go: pt.Elem()}
	lessI0 := f.applyPure(&Closure{Fn: less}, []Val{recv, {T: Sub(i, noff), Go: types.Typ[types.Int]}, {T: IntLit(0), Go: types.Typ[types.Int]}}, st)
	un.inQuant--
	un.assume(st, Forall([]Term{i}, Implies(inNew(i), Not(lessI0.T)), Select(newRow, i)))
	if op == "Pop" {
		return Val{T: IfaceMk(u.TypeTag(sl.Elem()), u.Box(x)), Go: types.NewInterfaceType(nil, nil), Dyn: sl.Elem()}
	}
	return Val{}
}
