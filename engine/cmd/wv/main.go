package main

import (
	"flag"
	"fmt"
	"os"
	"path/filepath"
	"runtime"
	"sort"
	"strings"
)

var verifRoot = "/verif"

func main() {
	if len(os.Args) < 2 {
		fmt.Fprintln(os.Stderr, "usage: wv fn <function>... | check <property> [--tier quick|thorough] | replay <file> | selftest")
		os.Exit(2)
	}
	if exe, err := os.Executable(); err == nil {
		if d := filepath.Dir(filepath.Dir(exe)); fileExists(filepath.Join(d, "properties.jsonl")) {
			verifRoot = d
		}
	}
	switch os.Args[1] {
	case "fn":
		os.Exit(cmdFn(os.Args[2:]))
	case "check":
		os.Exit(cmdCheck(os.Args[2:]))
	case "ssa":
		repo := "/repo"
		if r := os.Getenv("WV_REPO"); r != "" {
			repo = r
		}
		e := loadEngine(repo)
		for _, n := range os.Args[2:] {
			if fn := e.findFunction(n); fn != nil {
				fn.WriteTo(os.Stdout)
			} else {
				fmt.Println("no function", n)
			}
		}
		os.Exit(0)
	case "replay":
		os.Exit(cmdReplay(os.Args[2:]))
	default:
		fmt.Fprintln(os.Stderr, "unknown command", os.Args[1])
		os.Exit(2)
	}
}

func fileExists(p string) bool { _, err := os.Stat(p); return err == nil }

func loadEngine(repo string) *Engine {
	e, err := NewEngine(repo)
	if err != nil {
		fmt.Fprintln(os.Stderr, "engine:", err)
		os.Exit(2)
	}
	if err := e.LoadContracts(filepath.Join(verifRoot, "specs")); err != nil {
		fmt.Fprintln(os.Stderr, "contracts:", err)
		os.Exit(2)
	}
	return e
}

// cmdFn verifies single functions and prints every obligation (developer command).
func cmdFn(args []string) int {
	fs := flag.NewFlagSet("fn", flag.ExitOnError)
	timeout := fs.Int("t", 10, "per-obligation timeout (s)")
	repo := fs.String("repo", "/repo", "repository root")
	verbose := fs.Bool("v", false, "print notes")
	fs.Parse(args)
	e := loadEngine(*repo)
	rc := 0
	var jobs []*job
	var units []*Unit
	for _, name := range fs.Args() {
		un, err := e.verifyUnit(name)
		if err != nil {
			fmt.Fprintln(os.Stderr, err)
			rc = 2
			continue
		}
		units = append(units, un)
		for _, o := range un.obls {
			jobs = append(jobs, &job{un: un, obl: o})
		}
	}
	prelude := e.Prelude()
	solveAll(jobs, prelude, filepath.Join(verifRoot, "out", "fn", "vc"), *timeout, 0, runtime.NumCPU())
	for _, j := range jobs {
		status := j.res.Status
		mark := "ok  "
		if j.obl.Smoke {
			if status == "unsat" {
				mark = "VACUOUS"
				rc = 1
			} else {
				mark = "ok  "
				status = "reachable(" + status + ")"
			}
		} else if status != "unsat" {
			mark = "FAIL"
			rc = 1
		}
		fmt.Printf("%s %-70s %-8s %-7s %5dms  %s %s\n", mark, j.obl.Name, status, j.res.Solver, j.res.Ms, j.obl.Pos, trunc(j.obl.Text, 60))
		if status == "error" {
			fmt.Println(trunc(j.res.Output, 400))
		}
	}
	if *verbose {
		for _, un := range units {
			for _, n := range sortedNotes(un.notes) {
				fmt.Println("note:", n)
			}
		}
	}
	return rc
}

func trunc(s string, n int) string {
	s = strings.ReplaceAll(s, "\n", " ")
	if len(s) > n {
		return s[:n] + "..."
	}
	return s
}

func sortedStrings(m map[string]bool) []string {
	var out []string
	for k := range m {
		out = append(out, k)
	}
	sort.Strings(out)
	return out
}
