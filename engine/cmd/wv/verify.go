package main

import (
	"fmt"
	"go/types"
	"sort"
	"strings"

	"golang.org/x/tools/go/ssa"
)

func (e *Engine) newUnit(fn *ssa.Function, name string) *Unit {
	return &Unit{eng: e, u: e.u, fn: fn, name: name, heapSort: map[string]Sort{}, ord: map[string]int{}, notes: map[string]bool{},
		declared: map[string]bool{}, heapType: map[string]types.Type{}, epochJoin: map[int][]epochArm{}, reveals: map[string]bool{}, freshRefs: map[string]bool{}, revealed: map[string]bool{}, defMemo: map[string]string{}, ifacePay: map[string]Term{}}
}

func unitName(fn *ssa.Function) string { return unitNameS(fn.String()) }

func unitNameS(s string) string {
	s = strings.ReplaceAll(s, repoModule+"/", "")
	s = strings.ReplaceAll(s, "github.com/vx-labs/", "")
	return s
}

// VerifyFunction builds the verification unit of fn against its contract (may be nil: safety only).
func (e *Engine) VerifyFunction(fn *ssa.Function) (un *Unit, err error) {
	return e.verifyFunction(fn, nil)
}

// VerifyImplements verifies fn against the contract of the interface method it implements.
func (e *Engine) VerifyImplements(impl *Contract) (*Unit, error) {
	fn := e.allFns[impl.Name]
	if fn == nil {
		return nil, fmt.Errorf("implements: no function %s", impl.Name)
	}
	return e.verifyFunction(fn, impl)
}

func (e *Engine) verifyFunction(fn *ssa.Function, impl *Contract) (un *Unit, err error) {
	un = e.newUnit(fn, unitName(fn))
	if impl != nil {
		un.name = unitNameS(impl.Name) + " as " + unitNameS(impl.As)
		for _, r := range impl.Reveals {
			un.reveals[r] = true
		}
	}
	defer func() {
		if r := recover(); r != nil {
			if u, ok := r.(unsupported); ok {
				err = fmt.Errorf("%s: outside the supported subset: %s", un.name, u.msg)
				return
			}
			panic(r)
		}
	}()
	ct := e.contractFor(fn)
	if impl != nil {
		ct = e.contracts[impl.As]
		if ct == nil {
			return nil, fmt.Errorf("implements: no contract for %s", impl.As)
		}
	} else if ct != nil {
		for _, r := range ct.Reveals {
			un.reveals[r] = true
		}
	}
	f := &Frame{un: un, fn: fn, vals: map[ssa.Value]Val{}, contract: ct}
	if ct != nil {
		f.clausePkg = ct.Pkg // the unit's own contract (e.g. an interface contract it implements) names types of its package
	}
	st := State{R: tTrue, H: map[string]Term{}}
	next0 := un.heapInit("$next", SInt)
	un.assume(&st, Ge(next0, IntLit(0)))
	env := map[string]Val{}
	for _, p := range fn.Params {
		v := un.fresh("p_"+p.Name(), un.u.SortOf(p.Type()))
		f.vals[p] = Val{T: v, Go: p.Type()}
		un.assume(&st, un.typeFacts(p.Type(), v, &st, 0))
		env[p.Name()] = f.vals[p]
		un.assumeReceivedContext(&st, p.Type(), v)
	}
	for _, fv := range fn.FreeVars {
		v := un.fresh("fv_"+fv.Name(), un.u.SortOf(fv.Type()))
		f.vals[fv] = Val{T: v, Go: fv.Type()}
		un.assume(&st, un.typeFacts(fv.Type(), v, &st, 0))
		un.assumeReceivedContext(&st, fv.Type(), v)
		if pt, ok := fv.Type().Underlying().(*types.Pointer); ok {
			un.assume(&st, Neq(v, IntLit(0)))
			lv := un.lvOfPointer(v, fv.Type())
			cur := un.readLV(lv, &st)
			un.assume(&st, un.typeFacts(pt.Elem(), cur, &st, 0))
			un.assumeReceivedContext(&st, pt.Elem(), cur)
		}
	}
	if impl != nil {
		// the interface contract names the receiver as an interface value and the other parameters by position
		if len(ct.Params) != len(fn.Params) {
			return nil, fmt.Errorf("implements: %s has %d parameters, contract of %s names %d", fn.Name(), len(fn.Params), impl.As, len(ct.Params))
		}
		env = map[string]Val{}
		for i, p := range fn.Params {
			v := f.vals[p]
			if i == 0 {
				it := un.define("self", IfaceMk(un.u.TypeTag(p.Type()), un.u.Box(v.T)))
				un.ifacePay[it.S] = v.T
				recvT := e.lookupIfaceRecv(impl.As)
				v = Val{T: it, Go: recvT, Dyn: p.Type()}
			}
			env[ct.Params[i].Name] = v
		}
	}
	f.emitAxioms()
	f.paramEnv = env
	un.lockDefault = ct == nil || !mentionsLocks(ct)
	f.entry = st
	if ct != nil {
		fullEnv := f.postEnv(&st)
		for _, rq := range ct.Requires {
			un.assume(&st, f.evalAssume(rq, fullEnv, &st, &st))
		}
		un.smoke(&st, "requires")
	}
	f.entry = st.clone()
	f.body(st)
	for i := range f.rets {
		r := &f.rets[i]
		un.smoke(&r.st, fmt.Sprintf("ret%d", i+1))
		if ct != nil {
			penv := f.postEnv(&r.st) // parameters: entry values; captured variables: their value at this return
			outs := r.vals
			for j, o := range outs {
				if j < len(ct.Results) {
					penv[ct.Results[j].Name] = o
				}
			}
			if len(outs) == 1 {
				penv["result"] = outs[0]
			}
			for _, en := range ct.Ensures {
				// each postcondition is checked on its own: a failing clause must not make the following ones vacuous
				cst := r.st.clone()
				gs := f.evalGoals(en, penv, &cst, &f.entry)
				for gi, g := range gs {
					un.obligeNamed(&cst, fmt.Sprintf("ensures#%s%s@ret%d", en.label(), partSuffix(gi, len(gs)), i+1), "postcondition", en.Text+" [return at "+r.pos+"]", en.Pos, g)
				}
			}
			if ct.HasMod {
				f.frameObligations(ct, f.postEnv(&f.entry), r, i+1) // the frame is named in terms of the entry state
			}
		}
		// every lock taken by this call is released again
		for _, k := range sortedKeys(r.st.H) {
			if strings.HasPrefix(k, "K_") {
				end := r.st.H[k]
				start := un.H(&f.entry, k, ArrSort(SInt, SInt))
				if end.S != start.S {
					un.obligeNamed(&r.st, fmt.Sprintf("lockbalance:%s@ret%d", k, i+1), "lock", "locks held at return equal locks held at entry", un.posOf(fn.Pos()), Eq(end, start))
				}
			}
		}
	}
	if len(f.rets) == 0 {
		un.note("function " + un.name + " has no normal return")
	}
	return un, nil
}

// postEnv: parameter names (entry values) and captured variables read in st.
func (f *Frame) postEnv(st *State) map[string]Val {
	env := map[string]Val{}
	for k, v := range f.paramEnv {
		env[k] = v
	}
	for _, fv := range f.fn.FreeVars {
		v := f.vals[fv]
		if pt, ok := fv.Type().Underlying().(*types.Pointer); ok {
			lv := f.un.lvOfPointer(v.T, fv.Type())
			env[fv.Name()] = Val{T: f.un.readLV(lv, st), Go: pt.Elem(), LVSelf: lv}
		} else {
			env[fv.Name()] = v
		}
	}
	return env
}

// frameObligations: every heap the function changed must be covered by its modifies clause.
func (f *Frame) frameObligations(ct *Contract, env map[string]Val, r *retInfo, ri int) {
	un := f.un
	allowed := map[string][]Term{}
	whole := map[string]bool{}
	excepted := map[string]bool{}
	var fmods []string
	for _, m := range ct.Modifies {
		if _, rest, ok := modGuard(m); ok {
			m = rest
		}
		if mm := strings.TrimSpace(m); strings.HasPrefix(mm, "effects(") {
			m = "*" // (own frame check: not bounded)
		}
		fmods = append(fmods, m)
	}
	for _, m := range fmods {
		if x, ok := exceptItem(m); ok {
			for _, me := range f.resolveMod(x, env, &f.entry) {
				excepted[me.heap] = true
			}
		}
	}
	for _, m := range fmods {
		if _, ok := exceptItem(m); ok {
			continue
		}
		if strings.TrimSpace(m) == "*" {
			for k := range r.st.H {
				if !strings.HasPrefix(k, "G_") && !excepted[k] {
					whole[k] = true
				}
			}
			continue
		}
		for _, me := range f.resolveMod(m, env, &f.entry) {
			if me.rows {
				if _, ok := allowed[me.heap]; !ok {
					allowed[me.heap] = []Term{}
				}
				if me.ref.S != "" {
					allowed[me.heap] = append(allowed[me.heap], me.ref)
				}
			} else if me.ref.S == "" {
				whole[me.heap] = true
			} else {
				allowed[me.heap] = append(allowed[me.heap], me.ref)
			}
		}
	}
	next0 := un.H(&f.entry, "$next", SInt)
	keys := sortedKeys(r.st.H)
	for _, k := range keys {
		if isLocalKey(k) || whole[k] {
			continue
		}
		srt := un.heapSort[k]
		end := r.st.H[k]
		start := un.H(&f.entry, k, srt)
		if end.S == start.S {
			continue
		}
		if !strings.HasPrefix(string(srt), "(Array Int ") {
			un.obligeNamed(&r.st, fmt.Sprintf("frame:%s@ret%d", k, ri), "frame", "unchanged "+k, ct.File, Eq(end, start))
			continue
		}
		// objects allocated by this call are not part of the caller's frame
		q := Term{"r!frame", SInt}
		var excl []Term
		for _, a := range allowed[k] {
			excl = append(excl, Neq(q, a))
		}
		// (reference 0 is nil: no object or row lives there)
		g := Forall([]Term{q}, Implies(And(append(excl, Le(q, next0), Gt(q, IntLit(0)))...), Eq(Select(end, q), Select(start, q))), Select(end, q))
		un.obligeNamed(&r.st, fmt.Sprintf("frame:%s@ret%d", k, ri), "frame", "only the declared locations of "+k+" change", ct.File, g)
	}
}

// ---------------------------------------------------------------------------------------

func (e *Engine) findFunction(name string) *ssa.Function {
	if fn, ok := e.allFns[name]; ok {
		return fn
	}
	c := &Contract{Name: name, File: "cmdline"}
	for _, p := range e.pkgs {
		c.Pkg = p.PkgPath
		if key, err := e.resolveFuncName(c); err == nil {
			if fn := e.allFns[key]; fn != nil {
				return fn
			}
		}
	}
	return nil
}

func sortedNotes(m map[string]bool) []string {
	var out []string
	for k := range m {
		out = append(out, k)
	}
	sort.Strings(out)
	return out
}

func mentionsLocks(ct *Contract) bool {
	for _, r := range ct.Requires {
		if strings.Contains(r.Text, "locked(") {
			return true
		}
	}
	return false
}

// lookupIfaceRecv returns the interface type named in "(pkg.Iface).Method".
func (e *Engine) lookupIfaceRecv(key string) types.Type {
	j := strings.Index(key, ").")
	if !strings.HasPrefix(key, "(") || j < 0 {
		return nil
	}
	recv := key[1:j]
	i := strings.LastIndex(recv, ".")
	if i < 0 {
		return nil
	}
	if p := e.typesPkgs()[recv[:i]]; p != nil {
		if o, ok := p.Scope().Lookup(recv[i+1:]).(*types.TypeName); ok {
			return o.Type()
		}
	}
	return nil
}

// verifyUnit: a unit name is a function name, or "FUNC as (Iface).Method" for an implements directive.
func (e *Engine) verifyUnit(name string) (*Unit, error) {
	if i := strings.Index(name, " as "); i >= 0 {
		f1 := e.findFunction(strings.TrimSpace(name[:i]))
		right := strings.TrimSpace(name[i+4:])
		// "(pkg.I).M" or "(I).M": compare the simple interface name and the method
		simple := strings.TrimPrefix(right, "(")
		if j := strings.LastIndex(simple[:strings.Index(simple+")", ")")], "."); j >= 0 {
			simple = simple[j+1:]
		}
		for _, impl := range e.impls {
			if f1 != nil && impl.Name == f1.String() && (strings.HasSuffix(impl.As, "."+simple) || strings.HasSuffix(impl.As, "("+simple)) {
				return e.VerifyImplements(impl)
			}
		}
		return nil, fmt.Errorf("no implements directive for %q", name)
	}
	if strings.HasPrefix(name, "lemma:") {
		return e.verifyLemma(strings.TrimPrefix(name, "lemma:"))
	}
	fn := e.findFunction(name)
	if fn == nil {
		return nil, fmt.Errorf("function %s does not exist", name)
	}
	return e.VerifyFunction(fn)
}

// verifyLemma checks `lemma NAME(params) requires P ensures Q`: for all parameter values, P implies Q (from the axioms and
// the definitions of the spec functions only; a lemma reads no program state).
func (e *Engine) verifyLemma(name string) (un *Unit, err error) {
	var lm *Contract
	for _, l := range e.lemmas {
		if l.Name == name {
			lm = l
		}
	}
	if lm == nil {
		return nil, fmt.Errorf("lemma %s does not exist", name)
	}
	un = e.newUnit(nil, "lemma:"+name)
	defer func() {
		if r := recover(); r != nil {
			if u, ok := r.(unsupported); ok {
				un, err = nil, fmt.Errorf("lemma %s: outside the supported subset: %s", name, u.msg)
				return
			}
			panic(r)
		}
	}()
	f := &Frame{un: un, vals: map[ssa.Value]Val{}, pkgPath: lm.Pkg, clausePkg: lm.Pkg}
	st := State{R: tTrue, H: map[string]Term{}}
	env := map[string]Val{}
	for _, p := range lm.Params {
		srt, gt := f.specSort(p.Type)
		v := un.fresh("l_"+p.Name, srt)
		if gt != nil {
			un.assume(&st, un.typeFacts(gt, v, &st, 0))
		}
		env[p.Name] = Val{T: v, Go: gt}
	}
	f.emitAxioms()
	f.entry = st
	for _, rq := range lm.Requires {
		un.assume(&st, f.evalAssume(rq, env, &st, &st))
	}
	un.smoke(&st, "requires")
	for _, en := range lm.Ensures {
		cst := st.clone()
		gs := f.evalGoals(en, env, &cst, &st)
		for gi, g := range gs {
			un.obligeNamed(&cst, fmt.Sprintf("ensures#%s%s", en.label(), partSuffix(gi, len(gs))), "lemma", en.Text, en.Pos, g)
		}
	}
	return un, nil
}

// emitAxioms adds the `axiom` declarations of the spec and contract files, quantified over every heap they read.
func (f *Frame) emitAxioms() {
	un := f.un
	for _, ax := range un.eng.axioms {
		func() {
			defer func() {
				if r := recover(); r != nil {
					if u, ok := r.(unsupported); ok {
						if f.fn == nil {
							// a lemma: axioms about Go types it cannot name are simply not available to it
							un.inQuant = 0
							un.axHeaps = nil
							return
						}
						panic(unsupported{"axiom " + ax.Name + ": " + u.msg})
					}
					panic(r)
				}
			}()
			un.axHeaps = map[string]Term{}
			un.inQuant++
			st := &State{R: tTrue, H: map[string]Term{}}
			fr := &Frame{un: un, fn: f.fn, vals: map[ssa.Value]Val{}, pkgPath: ax.Pkg}
			body := fr.eval(ax.Body, &evalCtx{env: map[string]Val{}, cur: st, old: st})
			un.inQuant--
			var hv []Term
			for _, k := range sortedKeys(un.axHeaps) {
				if strings.HasPrefix(k, "C_") || strings.HasPrefix(k, "G_") {
					// an axiom is quantified over every heap it reads: reading a program or ghost VARIABLE would
					// claim something about all possible memories (inconsistent)
					panic(unsupported{"axiom " + ax.Name + " reads a variable (" + k + "): axioms may only mention spec functions; use `global-const` for constants"})
				}
				hv = append(hv, un.axHeaps[k])
			}
			un.axHeaps = nil
			t := body.T
			if len(hv) > 0 {
				// merge with the body's own quantifier when it is one, so that its patterns stay usable
				if strings.HasPrefix(t.S, "(forall (") {
					var b strings.Builder
					b.WriteString("(forall (")
					for _, h := range hv {
						fmt.Fprintf(&b, "(%s %s)", h.S, h.Sort)
					}
					b.WriteString(t.S[len("(forall ("):])
					t = Term{b.String(), SBool}
				} else {
					t = Forall(hv, t)
				}
			}
			un.decls = append(un.decls, "(assert "+t.S+")")
		}()
	}
}

// A-LOGGER, narrowed: a context.Context that a function *receives* (parameter, captured variable) carries the broker's logger
// (cmd/wasp stores it before anything runs and every derived context inherits it). Contexts the function makes itself are not
// covered by the assumption: context.Background() carries none, the With* constructors inherit from their parent, StoreLogger
// adds it (specs/00_std.spec), and L(ctx) requires it -- so logging through a context made from Background() is an obligation
// that fails.
func (un *Unit) assumeReceivedContext(st *State, t types.Type, v Term) {
	if !isContextType(t) {
		return
	}
	if _, ok := un.eng.specFuns["has_logger"]; !ok {
		return
	}
	un.eng.declareUF("has_logger", []Sort{v.Sort}, SBool)
	un.assume(st, mk(SBool, "uf_has_logger", v))
}

func isContextType(t types.Type) bool {
	n, ok := t.(*types.Named)
	return ok && n.Obj().Pkg() != nil && n.Obj().Pkg().Path() == "context" && n.Obj().Name() == "Context"
}
