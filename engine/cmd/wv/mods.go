package main

import (
	"fmt"
	"go/types"
	"os"
	"sort"
	"strings"

	"golang.org/x/tools/go/ssa"
)

// static description of the root of an address computation
type addrRoot struct {
	kind  string // "obj", "elem", "cell", "local", "structptr"
	T     types.Type
	field int
	alloc *ssa.Alloc
	fresh bool // the object was allocated by this very function: writes cannot touch memory that existed before
}

func (e *Engine) rootOf(v ssa.Value) addrRoot {
	switch a := v.(type) {
	case *ssa.FieldAddr:
		r := e.rootOf(a.X)
		if r.kind == "structptr" {
			return addrRoot{kind: "obj", T: r.T, field: a.Field, fresh: r.fresh}
		}
		return r
	case *ssa.IndexAddr:
		switch xt := a.X.Type().Underlying().(type) {
		case *types.Slice:
			_, mk := a.X.(*ssa.MakeSlice)
			return addrRoot{kind: "elem", T: xt.Elem(), fresh: mk}
		case *types.Pointer:
			_, al := a.X.(*ssa.Alloc)
			return addrRoot{kind: "elem", T: xt.Elem().Underlying().(*types.Array).Elem(), fresh: al}
		}
	case *ssa.Alloc:
		el := a.Type().Underlying().(*types.Pointer).Elem()
		if at, ok := el.Underlying().(*types.Array); ok {
			return addrRoot{kind: "elem", T: at.Elem(), fresh: true}
		}
		if !a.Heap {
			return addrRoot{kind: "local", alloc: a, T: el}
		}
	}
	_, fresh := v.(*ssa.Alloc)
	pt, ok := v.Type().Underlying().(*types.Pointer)
	if !ok {
		return addrRoot{kind: "unknown"}
	}
	el := pt.Elem()
	if _, ok := el.Underlying().(*types.Struct); ok {
		return addrRoot{kind: "structptr", T: el, fresh: fresh}
	}
	if at, ok := el.Underlying().(*types.Array); ok {
		return addrRoot{kind: "elem", T: at.Elem(), fresh: fresh}
	}
	return addrRoot{kind: "cell", T: el, fresh: fresh}
}

func (e *Engine) hint(name string, s Sort) string {
	e.heapSortHint[name] = s
	return name
}

func (e *Engine) addStructFields(T types.Type, out map[string]bool) {
	si := e.u.StructInfo(e.u.SortOf(T))
	for _, f := range si.fields {
		if f.ghost {
			// executable code (allocation, whole-struct stores, external callees) never writes ghost fields:
			// only ghost-after hooks do, and those are accounted for separately
			continue
		}
		hn := e.hint("F_"+TypeKey(T)+"_"+sanitize(f.name), ArrSort(SInt, f.sort))
		if f.typ != nil {
			e.heapTypeHint[hn] = f.typ
		}
		out[hn] = true
	}
}

func (e *Engine) addElem(T types.Type, out map[string]bool) {
	e.heapTypeHint["E_"+TypeKey(T)] = T
	out[e.hint("E_"+TypeKey(T), ArrSort(SInt, ArrSort(SInt, e.u.SortOf(T))))] = true
}

func (e *Engine) addMap(mt types.Type, out map[string]bool) {
	m := mt.Underlying().(*types.Map)
	k := TypeKey(mt)
	ks, vs := e.u.SortOf(m.Key()), e.u.SortOf(m.Elem())
	out[e.hint("Md_"+k, ArrSort(SInt, ArrSort(ks, SBool)))] = true
	out[e.hint("Mv_"+k, ArrSort(SInt, ArrSort(ks, vs)))] = true
	e.heapTypeHint["Mv_"+k] = m.Elem()
}

// storeMods adds the heap names a store through addr may change. Locals are reported via cb.
func (e *Engine) storeMods(addr ssa.Value, out map[string]bool, local func(*ssa.Alloc)) {
	r := e.rootOf(addr)
	if r.fresh {
		tmp := map[string]bool{}
		e.storeModsRoot(r, tmp, local)
		for k := range tmp {
			if k == "*" {
				out[k] = true
			} else {
				out["new:"+k] = true
			}
		}
		return
	}
	e.storeModsRoot(r, out, local)
}

func (e *Engine) storeModsRoot(r addrRoot, out map[string]bool, local func(*ssa.Alloc)) {
	switch r.kind {
	case "obj":
		si := e.u.StructInfo(e.u.SortOf(r.T))
		f := si.fields[r.field]
		out[e.hint("F_"+TypeKey(r.T)+"_"+sanitize(f.name), ArrSort(SInt, f.sort))] = true
	case "structptr":
		e.addStructFields(r.T, out)
	case "elem":
		e.addElem(r.T, out)
	case "cell":
		out[e.hint("C_"+TypeKey(r.T), ArrSort(SInt, e.u.SortOf(r.T)))] = true
	case "local":
		if local != nil {
			local(r.alloc)
		}
	default:
		out["*"] = true
	}
}

// typedHavocSet: what an unknown external callee may modify through its arguments.
func (e *Engine) typedHavocSet(un *Unit, args []Val, out map[string]bool) {
	for _, a := range args {
		if a.Go == nil {
			continue
		}
		e.typedHavocType(a.Go, out)
		if a.LV != nil {
			// interior pointer: the root heap
			switch a.LV.Kind {
			case lvObj:
				if len(a.LV.Path) > 0 {
					f := e.u.StructInfo(e.u.SortOf(a.LV.Root)).fields[a.LV.Path[0]]
					out[e.hint("F_"+TypeKey(a.LV.Root)+"_"+sanitize(f.name), ArrSort(SInt, f.sort))] = true
				} else {
					e.addStructFields(a.LV.Root, out)
				}
			case lvLocal, lvElem, lvCell:
				out[a.LV.Heap] = true
			}
		}
	}
}

func (e *Engine) typedHavocType(t types.Type, out map[string]bool) {
	switch tt := t.Underlying().(type) {
	case *types.Pointer:
		el := tt.Elem()
		if _, ok := el.Underlying().(*types.Struct); ok {
			e.addStructFields(el, out)
		} else if at, ok := el.Underlying().(*types.Array); ok {
			e.addElem(at.Elem(), out)
		} else {
			out[e.hint("C_"+TypeKey(el), ArrSort(SInt, e.u.SortOf(el)))] = true
		}
	case *types.Slice:
		e.addElem(tt.Elem(), out)
	case *types.Map:
		e.addMap(t, out)
	}
}

// declaredMods translates a contract's modifies clause to heap names (statically).
func (e *Engine) declaredMods(ct *Contract, fn *ssa.Function, sig *types.Signature, out map[string]bool) {
	e.declaredModsAt(ct, fn, sig, nil, out)
}

// declaredModsAt: the same for one call site c (may be nil): items guarded by `when p is *T:` are dropped when the argument
// passed for p is statically of another type.
func (e *Engine) declaredModsAt(ct *Contract, fn *ssa.Function, sig *types.Signature, c *ssa.CallCommon, out map[string]bool) {
	// evaluate the entries in a scratch unit with symbolic parameters
	un := e.newUnit(fn, "scratch")
	fr := &Frame{un: un, fn: fn, vals: map[ssa.Value]Val{}, pkgPath: ct.Pkg, clausePkg: ct.Pkg}
	st := State{R: tTrue, H: map[string]Term{}}
	env := map[string]Val{}
	bindParam := func(name string, t types.Type) {
		env[name] = Val{T: un.fresh(name, e.u.SortOf(t)), Go: t}
	}
	if fn != nil && len(fn.Params) > 0 {
		for _, p := range fn.Params {
			bindParam(p.Name(), p.Type())
		}
		for _, fv := range fn.FreeVars {
			if pt, ok := fv.Type().Underlying().(*types.Pointer); ok {
				bindParam(fv.Name(), pt.Elem())
				// the captured variable itself (a cell or an object) can be named in a modifies clause
				v := env[fv.Name()]
				v.LVSelf = un.lvOfPointer(un.fresh("fv_"+fv.Name(), SInt), fv.Type())
				env[fv.Name()] = v
			}
		}
	}
	if sig != nil {
		n := 0
		if sig.Recv() != nil {
			if len(ct.Params) > 0 {
				if _, dup := env[ct.Params[0].Name]; !dup {
					bindParam(ct.Params[0].Name, sig.Recv().Type())
				}
			}
			n = 1
		}
		for i := 0; i < sig.Params().Len() && i+n < len(ct.Params); i++ {
			if _, dup := env[ct.Params[i+n].Name]; !dup {
				bindParam(ct.Params[i+n].Name, sig.Params().At(i).Type())
			}
		}
	}
	defer func() {
		if r := recover(); r != nil {
			if u, ok := r.(unsupported); ok {
				if os.Getenv("WV_DEBUG") != "" {
					fmt.Fprintf(os.Stderr, "declaredMods(%s): %s\n", ct.Name, u.msg)
				}
				out["*"] = true
				return
			}
			panic(r)
		}
	}()
	var excepts []string
	var items []string
	for _, m := range ct.Modifies {
		mm := strings.TrimSpace(m)
		if strings.HasPrefix(mm, "effects(") && strings.HasSuffix(mm, ")") {
			pn := strings.TrimSpace(mm[8 : len(mm)-1])
			idx := -1
			for i, p := range ct.Params {
				if p.Name == pn {
					idx = i
				}
			}
			done := false
			if c != nil && idx >= 0 {
				ai := idx
				if c.IsInvoke() {
					ai = idx - 1 // the receiver is not among the arguments of an interface call
				}
				if ai >= 0 && ai < len(c.Args) {
					if mc, ok := c.Args[ai].(*ssa.MakeClosure); ok {
						e.fnMods(mc.Fn.(*ssa.Function), nil, out)
						done = true
					} else if fnv, ok := c.Args[ai].(*ssa.Function); ok {
						e.fnMods(fnv, nil, out)
						done = true
					}
				}
			}
			if !done {
				out["*nonghost"] = true
			}
			continue
		}
		if g, rest, ok := modGuard(m); ok {
			if c != nil && !e.guardMayHold(ct, g, c) {
				continue
			}
			m = rest
		}
		items = append(items, m)
	}
	for _, m := range items {
		if x, ok := exceptItem(m); ok {
			for _, me := range fr.resolveMod(x, env, &st) {
				excepts = append(excepts, me.heap)
				if s, ok := un.heapSort[me.heap]; ok {
					e.heapSortHint[me.heap] = s
				}
			}
		}
	}
	sort.Strings(excepts)
	for _, m := range items {
		if _, ok := exceptItem(m); ok {
			continue
		}
		if strings.TrimSpace(m) == "*" {
			if len(excepts) > 0 {
				out["*nonghost-except:"+strings.Join(excepts, ",")] = true
			} else {
				out["*nonghost"] = true
			}
			continue
		}
		for _, me := range fr.resolveMod(m, env, &st) {
			if me.rows && me.ref.S == "" {
				// only rows / objects allocated by the callee
				out["new:"+me.heap] = true
			} else {
				out[me.heap] = true
			}
			if s, ok := un.heapSort[me.heap]; ok {
				e.heapSortHint[me.heap] = s
			}
		}
	}
}

// modsOf: heap names fn may modify (inferred from its body, through callees).
func (e *Engine) modsOf(fn *ssa.Function) map[string]bool {
	if m, ok := e.modsMemo[fn]; ok {
		return m
	}
	if e.modsBusy[fn] {
		return map[string]bool{"*": true}
	}
	e.modsBusy[fn] = true
	out := map[string]bool{}
	for _, b := range fn.Blocks {
		for _, ins := range b.Instrs {
			e.instrMods(fn, ins, out, nil, 0)
		}
	}
	delete(e.modsBusy, fn)
	e.modsMemo[fn] = out
	return out
}

func (e *Engine) calleeMods(caller *ssa.Function, c *ssa.CallCommon, out map[string]bool, depth int) {
	if b, ok := c.Value.(*ssa.Builtin); ok {
		switch b.Name() {
		case "append", "copy":
			if sl, ok := c.Args[0].Type().Underlying().(*types.Slice); ok {
				e.addElem(sl.Elem(), out)
			}
		case "delete":
			e.addMap(c.Args[0].Type(), out)
		}
		return
	}
	if c.IsInvoke() {
		key := "(" + types.TypeString(c.Value.Type(), nil) + ")." + c.Method.Name()
		if ct := e.contracts[key]; ct != nil {
			for _, rc := range ct.Records {
				out["G_"+sanitize(strings.TrimPrefix(strings.TrimPrefix(rc.Kind, "records:"), "#"))] = true
			}
			if ct.HasMod {
				e.declaredModsAt(ct, nil, c.Signature(), c, out)
			} else if !ct.Pure {
				out["*"] = true
			}
			return
		}
		if mi, ok := c.Value.(*ssa.MakeInterface); ok {
			if m := e.prog.LookupMethod(mi.X.Type(), c.Method.Pkg(), c.Method.Name()); m != nil {
				e.fnMods(m, nil, out)
				return
			}
		}
		if n, ok := c.Value.Type().(*types.Named); ok && (n.Obj().Pkg() == nil || !strings.HasPrefix(n.Obj().Pkg().Path(), repoModule)) {
			// interface declared outside the repository: its implementations cannot name repo state
			for _, a := range c.Args {
				e.typedHavocType(a.Type(), out)
			}
			return
		}
		out["*"] = true
		return
	}
	var fn *ssa.Function
	if f := c.StaticCallee(); f != nil {
		fn = f
	} else if mc, ok := c.Value.(*ssa.MakeClosure); ok {
		fn = mc.Fn.(*ssa.Function)
	}
	if fn == nil {
		if e.callbackMods(caller, c.Value, out) {
			return
		}
		if n, ok := c.Value.Type().(*types.Named); ok && n.Obj().Pkg() != nil && !strings.HasPrefix(n.Obj().Pkg().Path(), repoModule) {
			for _, a := range c.Args {
				e.typedHavocType(a.Type(), out)
			}
			return
		}
		out["*"] = true
		return
	}
	e.fnMods(fn, c, out)
}

func (e *Engine) callbackMods(caller *ssa.Function, v ssa.Value, out map[string]bool) bool {
	k := callbackKey(caller, v)
	ct := e.callbacks[k]
	if ct == nil {
		return false
	}
	if ct.HasMod {
		sig, _ := v.Type().Underlying().(*types.Signature)
		e.declaredMods(ct, nil, sig, out)
	} else if !ct.Pure {
		out["*"] = true
	}
	for _, rc := range ct.Records {
		out["G_"+sanitize(strings.TrimPrefix(strings.TrimPrefix(rc.Kind, "records:"), "#"))] = true
	}
	return true
}

func (e *Engine) fnMods(fn *ssa.Function, c *ssa.CallCommon, out map[string]bool) {
	if ct := e.contractFor(fn); ct != nil {
		for _, rc := range ct.Records {
			out["G_"+sanitize(strings.TrimPrefix(strings.TrimPrefix(rc.Kind, "records:"), "#"))] = true
		}
		switch {
		case ct.HasMod:
			e.declaredModsAt(ct, fn, fn.Signature, c, out)
		case ct.Pure:
		case len(fn.Blocks) > 0:
			for k := range e.modsOf(fn) {
				out[k] = true
			}
		default:
			e.externMods(fn, c, out)
		}
		return
	}
	if isSyncLock(fn) {
		return
	}
	if len(fn.Blocks) > 0 {
		for k := range e.modsOf(fn) {
			out[k] = true
		}
		return
	}
	e.externMods(fn, c, out)
}

func isSyncLock(fn *ssa.Function) bool {
	s := fn.String()
	return strings.HasPrefix(s, "(*sync.Mutex).") || strings.HasPrefix(s, "(*sync.RWMutex).")
}

func (e *Engine) externMods(fn *ssa.Function, c *ssa.CallCommon, out map[string]bool) {
	sig := fn.Signature
	if sig.Recv() != nil {
		e.typedHavocType(sig.Recv().Type(), out)
	}
	if c != nil {
		for _, a := range c.Args {
			e.typedHavocType(a.Type(), out)
			// a closure handed to an external function may be called by it
			if mc, ok := a.(*ssa.MakeClosure); ok {
				for k := range e.modsOf(mc.Fn.(*ssa.Function)) {
					out[k] = true
				}
			}
		}
		return
	}
	for i := 0; i < sig.Params().Len(); i++ {
		e.typedHavocType(sig.Params().At(i).Type(), out)
	}
}

func (e *Engine) instrMods(fn *ssa.Function, ins ssa.Instruction, out map[string]bool, local func(*ssa.Alloc), depth int) {
	// ghost hooks attached to this function may write any declared ghost field
	if !out["$ghosthooks:"+fn.String()] {
		has := false
		for k := range e.ghostHooks {
			if strings.HasPrefix(k, fn.String()+"|") {
				has = true
			}
		}
		if has {
			for k, hooks := range e.ghostHooks {
				if !strings.HasPrefix(k, fn.String()+"|") {
					continue
				}
				for _, h := range hooks {
					for _, set := range h.Sets {
						lhs := strings.TrimSpace(strings.TrimPrefix(set.Kind, "set:"))
						if strings.HasPrefix(lhs, "#") {
							out["G_"+sanitize(lhs[1:])] = true
							continue
						}
						// x.#f: every ghost field of that name
						if i := strings.LastIndex(lhs, ".#"); i >= 0 {
							fname := lhs[i+2:]
							for key, gs := range e.u.ghostFlds {
								for _, g := range gs {
									if g.name == fname {
										out[e.hint("F_"+key+"_"+sanitize("#"+g.name), ArrSort(SInt, g.sort))] = true
									}
								}
							}
						}
					}
				}
			}
		}
	}
	if os.Getenv("WV_DEBUG") != "" && !out["*"] {
		defer func() {
			if out["*"] {
				fmt.Fprintf(os.Stderr, "mods: * introduced in %s by %s\n", fn.Name(), ins.String())
			}
		}()
	}
	switch x := ins.(type) {
	case *ssa.Store:
		e.storeMods(x.Addr, out, local)
	case *ssa.MapUpdate:
		e.addMap(x.Map.Type(), out)
	case *ssa.Call:
		e.calleeMods(fn, &x.Call, out, depth)
	case *ssa.Defer:
		e.calleeMods(fn, &x.Call, out, depth)
	case *ssa.Alloc:
		tmp := map[string]bool{}
		if x.Heap {
			el := x.Type().Underlying().(*types.Pointer).Elem()
			if _, ok := el.Underlying().(*types.Struct); ok {
				e.addStructFields(el, tmp)
			} else if at, ok := el.Underlying().(*types.Array); ok {
				e.addElem(at.Elem(), tmp)
			} else {
				tmp[e.hint("C_"+TypeKey(el), ArrSort(SInt, e.u.SortOf(el)))] = true
			}
		} else if at, ok := x.Type().Underlying().(*types.Pointer).Elem().Underlying().(*types.Array); ok {
			e.addElem(at.Elem(), tmp)
		}
		for k := range tmp {
			out["new:"+k] = true
		}
	case *ssa.MakeSlice:
		tmp := map[string]bool{}
		e.addElem(x.Type().Underlying().(*types.Slice).Elem(), tmp)
		for k := range tmp {
			out["new:"+k] = true
		}
	case *ssa.MakeMap:
		tmp := map[string]bool{}
		e.addMap(x.Type(), tmp)
		for k := range tmp {
			out["new:"+k] = true
		}
	case *ssa.Convert:
		if sl, ok := x.Type().Underlying().(*types.Slice); ok && isString(x.X.Type()) {
			tmp := map[string]bool{}
			e.addElem(sl.Elem(), tmp)
			for k := range tmp {
				out["new:"+k] = true
			}
		}
	}
}

// loopMods: what the body of loop li may modify, including locals of the current frame.
// allocBase: the allocation instruction an address is derived from (through field and index selections), if any.
func allocBase(v ssa.Value) ssa.Instruction {
	for {
		switch a := v.(type) {
		case *ssa.FieldAddr:
			v = a.X
		case *ssa.IndexAddr:
			v = a.X
		case *ssa.Alloc:
			return a
		case *ssa.MakeSlice:
			return a
		case *ssa.Slice:
			v = a.X
		default:
			return nil
		}
	}
}

func (e *Engine) loopMods(f *Frame, li *loopInfo) map[string]bool {
	out := map[string]bool{}
	local := func(a *ssa.Alloc) {
		if v, ok := f.vals[a]; ok && v.LV != nil && v.LV.Kind == lvLocal {
			out[v.LV.Heap] = true
		}
	}
	for b := range li.body {
		for _, ins := range b.Instrs {
			e.instrMods(f.fn, ins, out, local, 0)
			// a store through an allocation made OUTSIDE the loop changes memory that exists at the loop head:
			// "only new objects change" holds for callers of a function, not for the iterations of a loop
			if st, ok := ins.(*ssa.Store); ok {
				if os.Getenv("WV_DEBUG") != "" {
					fmt.Fprintf(os.Stderr, "loopMods store %s base=%v\n", st.Addr.String(), allocBase(st.Addr))
				}
				if base := allocBase(st.Addr); base != nil && !li.body[base.Block()] {
					r := e.rootOf(st.Addr)
					r.fresh = false
					e.storeModsRoot(r, out, local)
				}
			}
			if nx, ok := ins.(*ssa.Next); ok {
				if key, ok := f.ranges[nx.Iter]; ok {
					out[key] = true
				}
			}
			if _, ok := ins.(*ssa.RunDefers); ok {
				for _, d := range f.defers {
					e.calleeMods(f.fn, d.call, out, 0)
				}
			}
		}
	}
	// calls through values bound in enclosing frames (closure parameters of inlined callees)
	return out
}

// modGuard recognises a guarded modifies item, `when p is *T: item` (possibly behind a package marker), and returns the guard
// ("pkg|p|*T") and the item with the marker kept.
func modGuard(m string) (guard string, rest string, ok bool) {
	m = strings.TrimSpace(m)
	marker, pkg := "", ""
	if strings.HasPrefix(m, "@@") {
		if j := strings.Index(m[2:], "@@"); j >= 0 {
			marker, pkg = m[:2+j+2], m[2:2+j]
			m = strings.TrimSpace(m[2+j+2:])
		}
	}
	if !strings.HasPrefix(m, "when ") {
		return "", "", false
	}
	i := strings.Index(m, ":")
	if i < 0 {
		return "", "", false
	}
	f := strings.Fields(m[5:i])
	if len(f) != 3 || f[1] != "is" {
		return "", "", false
	}
	return pkg + "|" + f[0] + "|" + f[2], marker + strings.TrimSpace(m[i+1:]), true
}

// guardMayHold: can the argument passed for the guarded parameter have the guarded dynamic type at this call?
func (e *Engine) guardMayHold(ct *Contract, guard string, c *ssa.CallCommon) bool {
	parts := strings.SplitN(guard, "|", 3)
	pkg, pname, tname := parts[0], parts[1], parts[2]
	if pkg == "" {
		pkg = ct.Pkg
	}
	idx := -1
	for i, p := range ct.Params {
		if p.Name == pname {
			idx = i
		}
	}
	if idx < 0 || idx >= len(c.Args) {
		return true
	}
	mi, ok := c.Args[idx].(*ssa.MakeInterface)
	if !ok {
		return true
	}
	want := e.lookupTypeIn(tname, pkg)
	if want == nil {
		return true
	}
	return types.Identical(mi.X.Type(), want)
}
