package main

import (
	"fmt"
	"go/types"
	"os"
	"runtime/debug"
	"strings"

	"golang.org/x/tools/go/ssa"
)

// evalCtx is the context in which a contract expression is evaluated.
type evalCtx struct {
	env   map[string]Val
	cur   *State
	old   *State
	depth int
	pkg   *types.Package // for resolving type names
}

func (c *evalCtx) with(name string, v Val) *evalCtx {
	env := make(map[string]Val, len(c.env)+1)
	for k, x := range c.env {
		env[k] = x
	}
	env[name] = v
	n := *c
	n.env = env
	return &n
}

// evalAssume evaluates a clause that is about to be ASSUMED: universally quantified facts over slice positions are stated in
// both index forms (absolute positions and plain indices), so that every declared pattern is usable as a trigger.
func (f *Frame) evalAssume(cl *Clause, env map[string]Val, cur, old *State) Term {
	f.dupQuant++
	defer func() { f.dupQuant-- }()
	return f.evalClause(cl, env, cur, old)
}

func (f *Frame) evalClause(cl *Clause, env map[string]Val, cur, old *State) Term {
	defer func() {
		if r := recover(); r != nil {
			if u, ok := r.(unsupported); ok {
				panic(unsupported{cl.Pos + ": " + u.msg + " in `" + cl.Text + "`"})
			}
			panic(r)
		}
	}()
	if cl.Pkg != "" {
		saved := f.clausePkg
		f.clausePkg = cl.Pkg
		defer func() { f.clausePkg = saved }()
	}
	v := f.eval(cl.E, &evalCtx{env: env, cur: cur, old: old})
	if os.Getenv("WV_DEBUG") != "" {
		fmt.Fprintf(os.Stderr, "clause %s => %s\n", cl.Text, trunc(v.T.S, 300))
	}
	if v.T.Sort != SBool {
		f.fail("clause is not boolean (sort %s)", v.T.Sort)
	}
	return v.T
}

func intVal(t Term) Val { return Val{T: t, Go: types.Typ[types.Int]} }
func boolVal(t Term) Val {
	return Val{T: t, Go: types.Typ[types.Bool]}
}

// specSort resolves a sort/type name used in binders and declarations.
func (f *Frame) specSort(name string) (Sort, types.Type) {
	eng := f.un.eng
	name = strings.TrimSpace(name)
	switch name {
	case "int", "Int":
		return SInt, types.Typ[types.Int]
	case "int32":
		return SInt, types.Typ[types.Int32]
	case "int64":
		return SInt, types.Typ[types.Int64]
	case "uint64":
		return SInt, types.Typ[types.Uint64]
	case "byte", "uint8":
		return SInt, types.Typ[types.Uint8]
	case "bool", "Bool":
		return SBool, types.Typ[types.Bool]
	case "string", "Str":
		return SStr, types.Typ[types.String]
	case "Ref":
		return SInt, nil
	case "interface{}", "any", "Iface":
		return SIface, types.NewInterfaceType(nil, nil)
	case "[]byte":
		return SSlice, types.NewSlice(types.Typ[types.Uint8])
	case "StrSet":
		return ArrSort(SStr, SBool), nil // a set of strings (key set of a map[string]T)
	case "IntSet":
		return ArrSort(SInt, SBool), nil // a set of integers (indices)
	case "StrRefMap":
		return ArrSort(SStr, SInt), nil // strings to references (values of a map[string]*T)
	}
	if s, ok := eng.specSorts[name]; ok {
		return s, nil
	}
	if strings.HasPrefix(name, "(Array ") {
		return Sort(name), nil
	}
	if t := f.lookupType(name); t != nil {
		return f.un.u.SortOf(t), t
	}
	f.fail("unknown sort or type %q", name)
	return "", nil
}

var qcounter int

// useIx: share index terms among all slice quantifiers through the marker ix(k) (more complete, slower).
var useIx = false

func (f *Frame) eval(e Expr, c *evalCtx) Val {
	un := f.un
	u := un.u
	switch x := e.(type) {
	case EInt:
		return intVal(IntLitS(x.V))
	case EBool:
		return boolVal(BoolLit(x.V))
	case EStr:
		return Val{T: u.StrLit(x.V), Go: types.Typ[types.String]}
	case ENil:
		return Val{T: Term{"nil", "nil"}}
	case EIdent:
		if v, ok := c.env[x.Name]; ok {
			if os.Getenv("WV_DEBUG") != "" && x.Name == "destinations" {
				fmt.Fprintf(os.Stderr, "ident %s -> %q lv=%v\n%s\n", x.Name, v.T.S, v.LV, debug.Stack())
			}
			return v
		}
		if strings.HasPrefix(x.Name, "#") {
			g := un.eng.ghostVars[x.Name[1:]]
			if g == "" {
				f.fail("unknown ghost variable %s", x.Name)
			}
			return Val{T: un.H(c.cur, "G_"+sanitize(x.Name[1:]), g)}
		}
		if v, ok := un.eng.globalByName(f, x.Name, c.cur); ok {
			return v
		}
		if v, ok := f.uncapturedOuter(x.Name); ok {
			return v
		}
		f.fail("unknown identifier %q", x.Name)
	case EUnary:
		switch x.Op {
		case "!":
			return boolVal(Not(f.eval(x.X, c).T))
		case "-":
			return intVal(mk(SInt, "-", f.eval(x.X, c).T))
		case "*":
			v := f.eval(x.X, c)
			lv := v.LV
			if lv == nil {
				if v.Go == nil {
					f.fail("dereference of untyped value")
				}
				lv = un.lvOfPointer(v.T, v.Go)
			}
			return Val{T: un.readLV(lv, c.cur), Go: lv.Typ}
		}
	case EBinary:
		return f.evalBinary(x, c)
	case EIte:
		cond := f.eval(x.C, c).T
		a := f.eval(x.A, c)
		b := f.eval(x.B, c)
		a, b = f.unifyNil(a, b)
		return Val{T: Ite(cond, a.T, b.T), Go: a.Go}
	case ELet:
		v := f.eval(x.V, c)
		if x.Typ != "" {
			if v.T.Sort == "nil" {
				srt, gt := f.specSort(x.Typ)
				v = Val{T: u.Zero(srt), Go: gt}
			} else if v.Go == nil {
				if _, gt := f.specSort(x.Typ); gt != nil {
					v.Go = gt
				}
			}
		}
		if v.T.S != "" {
			v.T = un.define("let_"+x.Name, v.T)
		}
		return f.eval(x.B, c.with(x.Name, v))
	case ESetOf:
		// comprehension: a fresh set constant P with (forall k :: P[k] <==> body); the same body denotes the same constant
		if un.inQuant > 0 {
			f.fail("setof under a quantifier is not supported")
		}
		srt, gt := f.specSort(x.Var.Type)
		bv := Term{x.Var.Name + "!so", srt}
		un.inQuant++
		body := f.eval(x.Body, c.with(x.Var.Name, Val{T: bv, Go: gt})).T
		un.inQuant--
		if un.setMemo == nil {
			un.setMemo = map[string]Term{}
		}
		key := string(srt) + "|" + body.S
		if p, ok := un.setMemo[key]; ok {
			return Val{T: p}
		}
		pset := un.fresh("setof", ArrSort(srt, SBool))
		un.decls = append(un.decls, "(assert "+Forall([]Term{bv}, Eq(Select(pset, bv), body), Select(pset, bv)).S+")")
		un.setMemo[key] = pset
		return Val{T: pset}
	case EQuant:
		if f.dupQuant > 0 && !f.noShift && x.Forall && len(x.Pats) > 1 && un.inQuant == 0 {
			// assumed fact with several alternative patterns: state it in both index forms
			a := func() Term {
				saved := f.dupQuant
				f.dupQuant = 0
				defer func() { f.dupQuant = saved }()
				return f.eval(x, c).T
			}()
			b := func() Term {
				saved := f.dupQuant
				f.dupQuant = 0
				f.noShift = true
				defer func() { f.dupQuant = saved; f.noShift = false }()
				return f.eval(x, c).T
			}()
			if a.S == b.S {
				return boolVal(a)
			}
			return boolVal(And(a, b))
		}
		nc := c
		var vars []Term
		var guards []Term
		var ixs []Term // position markers of variables that index slices
		for _, qv := range x.Vars {
			srt, gt := f.specSort(qv.Type)
			qcounter++
			bv := Term{fmt.Sprintf("%s!q%d", qv.Name, qcounter), srt}
			vars = append(vars, bv)
			bound := Val{T: bv, Go: gt}
			if srt == SInt && !f.noShift {
				// a variable used as a slice index ranges over absolute positions of the backing row
				if off, ok := f.sliceShift(x.Body, qv.Name, x.Vars, c); ok {
					bound.T = Sub(bv, off)
					if useIx {
						ixs = append(ixs, Ix(bv))
					}
				}
			}
			nc = nc.with(qv.Name, bound)
			if gt != nil {
				if b, ok := gt.Underlying().(*types.Basic); ok && b.Kind() != types.Int {
					if lo, hi, ok := intRange(b); ok {
						guards = append(guards, And(Le(IntLitS(lo), bv), Le(bv, IntLitS(hi))))
					}
				}
			}
		}
		un.inQuant++
		defer func() { un.inQuant-- }()
		body := f.eval(x.Body, nc).T
		var pats [][]Term
		for _, grp := range x.Pats {
			var g []Term
			for _, p := range grp {
				pt := f.eval(p, nc).T
				// `k in m` as a pattern: the membership select itself (a conjunction is not a usable trigger)
				if b, ok := p.(EBinary); ok && b.Op == "in" && strings.HasPrefix(pt.S, "(and ") {
					m := f.eval(b.R, nc)
					if m.Go != nil {
						if mt, ok := m.Go.Underlying().(*types.Map); ok {
							dn, _ := un.mapHeaps(m.Go)
							d := un.H(nc.cur, dn, ArrSort(SInt, ArrSort(un.u.SortOf(mt.Key()), SBool)))
							pt = Select(Select(d, m.T), f.eval(b.L, nc).T)
						}
					}
				}
				g = append(g, pt)
			}
			pats = append(pats, g)
		}
		if len(ixs) > 0 {
			pats = append(pats, ixs)
			guards = append(guards, ixs...)
		}
		if x.Forall {
			return boolVal(quant("forall", vars, Implies(And(guards...), body), pats))
		}
		return boolVal(quant("exists", vars, And(append(guards, body)...), pats))
	case EField:
		return f.evalField(x, c)
	case EIndex:
		return f.evalIndex(x, c)
	case ESlice:
		s := f.eval(x.X, c)
		lo := IntLit(0)
		if x.Lo != nil {
			lo = f.eval(x.Lo, c).T
		}
		if isGoString(s.Go) {
			hi := mk(SInt, "strlen", s.T)
			if x.Hi != nil {
				hi = f.eval(x.Hi, c).T
			}
			un.eng.needSubstr = true
			return Val{T: mk(SStr, "substr", s.T, lo, hi), Go: s.Go}
		}
		hi := SLen(s.T)
		if x.Hi != nil {
			hi = f.eval(x.Hi, c).T
		}
		return Val{T: SliceMk(SBase(s.T), Add(SOff(s.T), lo), Sub(hi, lo), Sub(SCap(s.T), lo)), Go: s.Go}
	case ECall:
		return f.evalCall(x, c)
	case EMethod:
		recv := f.eval(x.X, c)
		if recv.Go == nil {
			f.fail("method %s on untyped value", x.Name)
		}
		key := "(" + types.TypeString(recv.Go, nil) + ")." + x.Name
		ct := un.eng.contracts[key]
		if ct == nil || !ct.Pure {
			f.fail("method %s in a contract needs a pure contract for %s", x.Name, key)
		}
		if len(ct.Params) != len(x.Args)+1 {
			f.fail("method %s: wrong number of arguments", x.Name)
		}
		env := map[string]Val{ct.Params[0].Name: recv}
		for i, a := range x.Args {
			env[ct.Params[i+1].Name] = f.eval(a, c)
		}
		rname := "result"
		if len(ct.Results) == 1 {
			rname = ct.Results[0].Name
		}
		for _, en := range ct.Ensures {
			if b, ok := en.E.(EBinary); ok && (b.Op == "==" || b.Op == "<==>") {
				if id, ok := b.L.(EIdent); ok && id.Name == rname {
					v := f.eval(b.R, &evalCtx{env: env, cur: c.cur, old: c.old, depth: c.depth + 1})
					if m, ok := recv.Go.Underlying().(*types.Interface); ok {
						for i := 0; i < m.NumMethods(); i++ {
							if m.Method(i).Name() == x.Name {
								v.Go = m.Method(i).Type().(*types.Signature).Results().At(0).Type()
							}
						}
					}
					return v
				}
			}
		}
		// no defining postcondition: an uninterpreted function of the receiver and the arguments
		var sig *types.Signature
		if m, ok := recv.Go.Underlying().(*types.Interface); ok {
			for i := 0; i < m.NumMethods(); i++ {
				if m.Method(i).Name() == x.Name {
					sig = m.Method(i).Type().(*types.Signature)
				}
			}
		}
		if sig == nil || sig.Results().Len() != 1 {
			f.fail("method %s: cannot determine the result type", x.Name)
		}
		rt := sig.Results().At(0).Type()
		ts := []Term{recv.T}
		as := []Sort{recv.T.Sort}
		for i := range x.Args {
			a := env[ct.Params[i+1].Name]
			ts = append(ts, a.T)
			as = append(as, a.T.Sort)
		}
		un.eng.declareUF("m_"+sanitize(key), as, u.SortOf(rt))
		return Val{T: mk(u.SortOf(rt), "uf_m_"+sanitize(key), ts...), Go: rt}
	}
	f.fail("cannot evaluate %T", e)
	return Val{}
}

func isGoString(t types.Type) bool { return t != nil && isString(t) }

func (f *Frame) unifyNil(a, b Val) (Val, Val) {
	u := f.un.u
	if a.T.Sort == "nil" && b.T.Sort == "nil" {
		f.fail("nil compared with nil")
	}
	if a.T.Sort == "nil" {
		a = Val{T: u.Zero(b.T.Sort), Go: b.Go}
	}
	if b.T.Sort == "nil" {
		b = Val{T: u.Zero(a.T.Sort), Go: a.Go}
	}
	return a, b
}

func (f *Frame) evalBinary(x EBinary, c *evalCtx) Val {
	un := f.un
	switch x.Op {
	case "&&":
		return boolVal(And(f.eval(x.L, c).T, f.eval(x.R, c).T))
	case "||":
		return boolVal(Or(f.eval(x.L, c).T, f.eval(x.R, c).T))
	case "==>":
		return boolVal(Implies(f.eval(x.L, c).T, f.eval(x.R, c).T))
	case "<==>":
		return boolVal(Eq(f.eval(x.L, c).T, f.eval(x.R, c).T))
	case "in":
		k := f.eval(x.L, c)
		m := f.eval(x.R, c)
		if m.Go != nil {
			if mt, ok := m.Go.Underlying().(*types.Map); ok {
				dn, _ := un.mapHeaps(m.Go)
				ks := un.u.SortOf(mt.Key())
				d := un.H(c.cur, dn, ArrSort(SInt, ArrSort(ks, SBool)))
				return boolVal(And(Neq(m.T, IntLit(0)), Select(Select(d, m.T), k.T)))
			}
		}
		if strings.HasPrefix(string(m.T.Sort), "(Array ") {
			return boolVal(Select(m.T, k.T))
		}
		f.fail("`in` on non-map")
	}
	l := f.eval(x.L, c)
	r := f.eval(x.R, c)
	switch x.Op {
	case "==", "!=":
		if os.Getenv("WV_DEBUG") != "" {
			fmt.Fprintf(os.Stderr, "cmp %q:%s  %q:%s  %#v\n", l.T.S, l.T.Sort, r.T.S, r.T.Sort, x.L)
		}
		// an interior pointer (address of a field or element) is never nil
		if l.LV != nil && l.T.S == "" && r.T.Sort == "nil" {
			return boolVal(BoolLit(x.Op == "!="))
		}
		if r.LV != nil && r.T.S == "" && l.T.Sort == "nil" {
			return boolVal(BoolLit(x.Op == "!="))
		}
		l, r = f.unifyNil(l, r)
		var eq Term
		if l.T.Sort != r.T.Sort {
			f.fail("comparison of %s with %s", l.T.Sort, r.T.Sort)
		}
		switch {
		case l.T.Sort == SSlice && (r.T.S == nilSlice.S || l.T.S == nilSlice.S):
			if l.T.S == nilSlice.S {
				l, r = r, l
			}
			eq = Eq(SBase(l.T), IntLit(0))
		case l.T.Sort == SIface && (r.T.S == nilIface.S || l.T.S == nilIface.S):
			if l.T.S == nilIface.S {
				l, r = r, l
			}
			eq = Eq(ITag(l.T), IntLit(0))
		default:
			eq = Eq(l.T, r.T)
		}
		if x.Op == "!=" {
			eq = Not(eq)
		}
		return boolVal(eq)
	case "<", "<=", ">", ">=":
		a, b := l.T, r.T
		if a.Sort == SStr {
			a, b = mk(SInt, "strcmp", l.T, r.T), IntLit(0)
		}
		switch x.Op {
		case "<":
			return boolVal(Lt(a, b))
		case "<=":
			return boolVal(Le(a, b))
		case ">":
			return boolVal(Gt(a, b))
		default:
			return boolVal(Ge(a, b))
		}
	case "+":
		if l.T.Sort == SStr {
			un.eng.needStrcat = true
			return Val{T: mk(SStr, "strcat", l.T, r.T), Go: l.Go}
		}
		return Val{T: Add(l.T, r.T), Go: l.Go}
	case "-":
		return Val{T: Sub(l.T, r.T), Go: l.Go}
	case "*":
		return Val{T: Mul(l.T, r.T), Go: l.Go}
	case "/":
		return Val{T: mk(SInt, "div", l.T, r.T), Go: l.Go}
	case "%":
		return Val{T: mk(SInt, "mod", l.T, r.T), Go: l.Go}
	}
	f.fail("operator %s", x.Op)
	return Val{}
}

func (f *Frame) evalField(x EField, c *evalCtx) Val {
	un := f.un
	u := un.u
	v := f.eval(x.X, c)
	// interior pointer to a struct
	if v.LV != nil {
		_, sty := derefStruct(v.LV.Typ)
		if sty == nil {
			f.fail("field %s of non-struct location", x.Name)
		}
		si := un.sinfo(v.LV.Typ)
		idx := si.fieldIndex(x.Name)
		if idx < 0 {
			f.fail("no field %s in %v", x.Name, v.LV.Typ)
		}
		lv := *v.LV
		lv.Path = append(append([]int{}, lv.Path...), idx)
		lv.Typ = si.fields[idx].typ
		return Val{T: un.readLV(&lv, c.cur), Go: lv.Typ}
	}
	if v.Go == nil {
		// spec datatype accessor
		if acc, ok := un.eng.specAccessors[string(v.T.Sort)+"."+x.Name]; ok {
			return Val{T: mk(acc.sort, acc.name, v.T)}
		}
		f.fail("field %s of untyped value", x.Name)
	}
	T, sty := derefStruct(v.Go)
	if sty == nil {
		f.fail("field %s of non-struct %v", x.Name, v.Go)
	}
	si := un.sinfo(T)
	idx := si.fieldIndex(x.Name)
	if idx < 0 {
		f.fail("no field %s in %v", x.Name, T)
	}
	fi := si.fields[idx]
	if _, isPtr := v.Go.Underlying().(*types.Pointer); isPtr {
		h := un.H(c.cur, un.fieldHeap(T, fi.name), ArrSort(SInt, fi.sort))
		return Val{T: Select(h, v.T), Go: fi.typ}
	}
	return Val{T: u.GetField(v.T, idx), Go: fi.typ}
}

func (f *Frame) evalIndex(x EIndex, c *evalCtx) Val {
	un := f.un
	u := un.u
	v := f.eval(x.X, c)
	i := f.eval(x.I, c)
	if v.Go != nil {
		switch t := v.Go.Underlying().(type) {
		case *types.Slice:
			es := u.SortOf(t.Elem())
			h := un.H(c.cur, un.elemHeap(t.Elem()), ArrSort(SInt, ArrSort(SInt, es)))
			return Val{T: Select(Select(h, SBase(v.T)), Add(SOff(v.T), i.T)), Go: t.Elem()}
		case *types.Map:
			_, vn := un.mapHeaps(v.Go)
			ks, vs := u.SortOf(t.Key()), u.SortOf(t.Elem())
			h := un.H(c.cur, vn, ArrSort(SInt, ArrSort(ks, vs)))
			return Val{T: Select(Select(h, v.T), i.T), Go: t.Elem()}
		case *types.Basic:
			return intVal(mk(SInt, "strat", v.T, i.T))
		}
	}
	if strings.HasPrefix(string(v.T.Sort), "(Array ") {
		return Val{T: Select(v.T, i.T)}
	}
	f.fail("index of %v", v.Go)
	return Val{}
}

func (f *Frame) evalCall(x ECall, c *evalCtx) Val {
	un := f.un
	u := un.u
	switch x.Fn {
	case "old":
		nc := *c
		nc.cur = c.old
		// inside old(), a parameter name denotes the value the function was entered with
		if _, own := c.env["$own"]; own && f.parent == nil && len(f.paramEnv) > 0 {
			top := f
			env := map[string]Val{}
			for k, v := range c.env {
				env[k] = v
			}
			for k, v := range top.paramEnv {
				if _, ok := env[k]; ok {
					env[k] = v
				}
			}
			nc.env = env
		}
		// variables that live in memory (captured variables of a closure) are re-read in the old state
		{
			var env map[string]Val
			for k, v := range nc.env {
				if v.LVSelf != nil && c.old != nil {
					if env == nil {
						env = map[string]Val{}
						for k2, v2 := range nc.env {
							env[k2] = v2
						}
					}
					nv := v
					nv.T = un.readLV(v.LVSelf, c.old)
					env[k] = nv
				}
			}
			if env != nil {
				nc.env = env
			}
		}
		return f.eval(x.Args[0], &nc)
	case "len":
		v := f.eval(x.Args[0], c)
		if v.T.Sort == SStr {
			return intVal(mk(SInt, "strlen", v.T))
		}
		if v.T.Sort == SSlice {
			return intVal(SLen(v.T))
		}
		if v.Go != nil {
			if mt, ok := v.Go.Underlying().(*types.Map); ok {
				dn, _ := un.mapHeaps(v.Go)
				ks := u.SortOf(mt.Key())
				d := un.H(c.cur, dn, ArrSort(SInt, ArrSort(ks, SBool)))
				return intVal(un.eng.card(ks, Ite(Eq(v.T, IntLit(0)), ConstArr(ArrSort(ks, SBool), tFalse), Select(d, v.T))))
			}
		}
		f.fail("len of %v", v.Go)
	case "cap":
		return intVal(SCap(f.eval(x.Args[0], c).T))
	case "base":
		return intVal(SBase(f.eval(x.Args[0], c).T))
	case "off":
		return intVal(SOff(f.eval(x.Args[0], c).T))
	case "fresh":
		v := f.eval(x.Args[0], c)
		t := v.T
		if t.Sort == SSlice {
			t = SBase(t)
		}
		return boolVal(Gt(t, un.H(c.old, "$next", SInt)))
	case "allocated":
		v := f.eval(x.Args[0], c)
		t := v.T
		if t.Sort == SSlice {
			t = SBase(t)
		}
		return boolVal(Le(t, un.H(c.cur, "$next", SInt)))
	case "dynval":
		return intVal(IVal(f.eval(x.Args[0], c).T))
	case "dyntype":
		return intVal(ITag(f.eval(x.Args[0], c).T))
	case "typeis":
		// typeis(x, T)
		v := f.eval(x.Args[0], c)
		id, ok := x.Args[1].(EIdent)
		var tn string
		if ok {
			tn = id.Name
		} else if fe, ok := x.Args[1].(EField); ok {
			tn = fe.X.(EIdent).Name + "." + fe.Name
		} else if ue, ok := x.Args[1].(EUnary); ok && ue.Op == "*" {
			switch in := ue.X.(type) {
			case EIdent:
				tn = "*" + in.Name
			case EField:
				tn = "*" + in.X.(EIdent).Name + "." + in.Name
			}
		}
		t := f.lookupType(tn)
		if t == nil {
			f.fail("typeis: unknown type %s", tn)
		}
		return boolVal(Eq(ITag(v.T), u.TypeTag(t)))
	case "unbox":
		// unbox(x, T): payload of interface x as T
		v := f.eval(x.Args[0], c)
		tn := exprTypeName(x.Args[1])
		t := f.lookupType(tn)
		if t == nil {
			f.fail("unbox: unknown type %s", tn)
		}
		return Val{T: u.Unbox(IVal(v.T), u.SortOf(t)), Go: t}
	case "update":
		// update(a, k, v): the array a with a[k] = v
		a := f.eval(x.Args[0], c)
		k := f.eval(x.Args[1], c)
		v := f.eval(x.Args[2], c)
		return Val{T: Store(a.T, k.T, v.T)}
	case "asiface":
		// asiface(x): the Go value x stored in an interface
		v := f.eval(x.Args[0], c)
		if v.Go == nil {
			f.fail("asiface of untyped value")
		}
		return Val{T: IfaceMk(u.TypeTag(v.Go), u.Box(v.T)), Dyn: v.Go}
	case "asptr":
		// asptr(x, *T): the integer x read as a pointer of the given type (ghost references)
		v := f.eval(x.Args[0], c)
		tn := exprTypeName(x.Args[1])
		t := f.lookupType(tn)
		if t == nil {
			f.fail("asptr: unknown type %s", tn)
		}
		return Val{T: v.T, Go: t}
	case "string":
		v := f.eval(x.Args[0], c)
		if v.T.Sort == SStr {
			return v
		}
		// bytes -> string, as an uninterpreted function of (row, off, len)
		var elem types.Type = types.Typ[types.Uint8] // a ghost variable of sort Slice read as a string: a byte slice
		if v.Go != nil {
			elem = v.Go.Underlying().(*types.Slice).Elem()
		}
		h := un.H(c.cur, un.elemHeap(elem), ArrSort(SInt, ArrSort(SInt, SInt)))
		un.eng.needStrOf = true
		return Val{T: mk(SStr, "str_of", Select(h, SBase(v.T)), SOff(v.T), SLen(v.T)), Go: types.Typ[types.String]}
	case "strcmp":
		return intVal(mk(SInt, "strcmp", f.eval(x.Args[0], c).T, f.eval(x.Args[1], c).T))
	case "ite":
		return f.eval(EIte{x.Args[0], x.Args[1], x.Args[2]}, c)
	case "oldrows":
		// oldrows("[]T"): every row of the element heap of []T that existed on entry is unchanged
		lit, ok := x.Args[0].(EStr)
		if !ok {
			f.fail("oldrows needs a type in quotes")
		}
		t := f.lookupType(lit.V)
		if t == nil {
			f.fail("oldrows: unknown type %s", lit.V)
		}
		sl, ok := t.Underlying().(*types.Slice)
		if !ok {
			f.fail("oldrows: %s is not a slice type", lit.V)
		}
		hn := un.elemHeap(sl.Elem())
		srt := ArrSort(SInt, ArrSort(SInt, u.SortOf(sl.Elem())))
		b := Term{"b!or", SInt}
		cur, old := un.H(c.cur, hn, srt), un.H(c.old, hn, srt)
		var except []Term
		for _, a := range x.Args[1:] {
			// oldrows("[]T", s, ...): ... other than the backing rows of the slices s, ...
			except = append(except, Neq(b, SBase(f.eval(a, c).T)))
		}
		return boolVal(Forall([]Term{b}, Implies(And(append(except, Le(b, un.H(c.old, "$next", SInt)))...), Eq(Select(cur, b), Select(old, b))), Select(cur, b)))
	case "oldobjs":
		// oldobjs("T"): every object of struct type T that existed on entry has all its (program) fields unchanged
		lit, ok := x.Args[0].(EStr)
		if !ok {
			f.fail("oldobjs needs a type in quotes")
		}
		t := f.lookupType(lit.V)
		if t == nil {
			f.fail("oldobjs: unknown type %s", lit.V)
		}
		T, sty := derefStruct(t)
		if sty == nil {
			f.fail("oldobjs: %s is not a struct type", lit.V)
		}
		b := Term{"b!oo", SInt}
		var cs []Term
		var except []Term
		for _, a := range x.Args[1:] {
			// oldobjs("T", x, ...): ... other than the objects x, ...
			except = append(except, Neq(b, f.eval(a, c).T))
		}
		for _, fi := range un.sinfo(T).fields {
			if fi.ghost {
				continue
			}
			hn := un.fieldHeap(T, fi.name)
			srt := ArrSort(SInt, fi.sort)
			cur, old := un.H(c.cur, hn, srt), un.H(c.old, hn, srt)
			if cur.S == old.S {
				continue
			}
			cs = append(cs, Forall([]Term{b}, Implies(And(append(append([]Term{}, except...), Le(b, un.H(c.old, "$next", SInt)))...), Eq(Select(cur, b), Select(old, b))), Select(cur, b)))
		}
		return boolVal(And(cs...))
	case "wlocked", "rlocked", "unlocked", "lockstate":
		lv := f.evalLV(x.Args[0], c)
		hn, key := un.lockHeap(lv)
		cur := Select(un.H(c.cur, hn, ArrSort(SInt, SInt)), key)
		switch x.Fn {
		case "wlocked":
			return boolVal(Eq(cur, IntLit(2)))
		case "rlocked":
			return boolVal(Ge(cur, IntLit(1)))
		case "unlocked":
			return boolVal(Eq(cur, IntLit(0)))
		}
		return intVal(cur)
	case "seenset":
		// seenset(): the set of keys already visited by the map range of this loop, as an array Key -> Bool
		if sk, ok := c.env["$seenkey"]; ok {
			if s, ok := un.heapSort[sk.T.S]; ok {
				return Val{T: un.H(c.cur, sk.T.S, s)}
			}
		}
		for _, key := range f.ranges {
			if s, ok := un.heapSort[key]; ok {
				return Val{T: un.H(c.cur, key, s)}
			}
		}
		f.fail("seenset(): no map range in scope")
	case "cellsframe":
		// cellsframe(x): every variable cell of x's type other than the captured variable x itself is as it was on entry
		id, ok := x.Args[0].(EIdent)
		if !ok {
			f.fail("cellsframe needs a captured variable")
		}
		v, ok := c.env[id.Name]
		if !ok || v.LVSelf == nil || v.LVSelf.Kind != lvCell {
			f.fail("cellsframe: %s is not a captured variable", id.Name)
		}
		lv := v.LVSelf
		srt := ArrSort(SInt, un.u.SortOf(lv.Root))
		cur, old := un.H(c.cur, lv.Heap, srt), un.H(c.old, lv.Heap, srt)
		r := Term{"r!cf", SInt}
		return boolVal(Forall([]Term{r}, Implies(And(Neq(r, lv.Ref), Le(r, un.H(c.old, "$next", SInt))), Eq(Select(cur, r), Select(old, r))), Select(cur, r)))
	case "mapsframe":
		// mapsframe(m): every map of m's type other than m is as it was on entry (frame of a loop that writes only m)
		m := f.eval(x.Args[0], c)
		mt, ok := m.Go.Underlying().(*types.Map)
		if !ok {
			f.fail("mapsframe of a non-map")
		}
		ks, vs := un.u.SortOf(mt.Key()), un.u.SortOf(mt.Elem())
		dn, vn := un.mapHeaps(m.Go)
		r := Term{"r!mf", SInt}
		dc, do := un.H(c.cur, dn, ArrSort(SInt, ArrSort(ks, SBool))), un.H(c.old, dn, ArrSort(SInt, ArrSort(ks, SBool)))
		vc, vo := un.H(c.cur, vn, ArrSort(SInt, ArrSort(ks, vs))), un.H(c.old, vn, ArrSort(SInt, ArrSort(ks, vs)))
		lim := un.H(c.old, "$next", SInt)
		return boolVal(And(
			Forall([]Term{r}, Implies(And(Neq(r, m.T), Le(r, lim)), Eq(Select(dc, r), Select(do, r))), Select(dc, r)),
			Forall([]Term{r}, Implies(And(Neq(r, m.T), Le(r, lim)), Eq(Select(vc, r), Select(vo, r))), Select(vc, r))))
	case "$trig":
		// keeps the pattern terms of a split quantified goal in the goal (see splitGoal)
		var cs []Term
		for _, a := range x.Args {
			var v Val
			ok := true
			func() {
				defer func() {
					if r := recover(); r != nil {
						if _, u := r.(unsupported); !u {
							panic(r)
						}
						ok = false
					}
				}()
				v = f.eval(a, c)
			}()
			if !ok || v.T.S == "" || v.T.Sort == SBool {
				continue
			}
			name := "trg_" + sanitize(string(v.T.Sort))
			un.eng.declareUF(name, []Sort{v.T.Sort}, SBool)
			un.eng.trigSorts[name] = v.T.Sort
			cs = append(cs, mk(SBool, "uf_"+name, v.T))
		}
		return boolVal(And(cs...))
	case "emptyset":
		return Val{T: ConstArr(ArrSort(SStr, SBool), tFalse)}
	case "domof", "valsof":
		// domof(m): the key set of map m (Key -> Bool); valsof(m): its values (Key -> Value); a nil map has no keys
		m := f.eval(x.Args[0], c)
		mt, ok := m.Go.Underlying().(*types.Map)
		if !ok {
			f.fail("%s of a non-map", x.Fn)
		}
		ks, vs := un.u.SortOf(mt.Key()), un.u.SortOf(mt.Elem())
		dn, vn := un.mapHeaps(m.Go)
		if x.Fn == "domof" {
			d := Select(un.H(c.cur, dn, ArrSort(SInt, ArrSort(ks, SBool))), m.T)
			return Val{T: Ite(Eq(m.T, IntLit(0)), ConstArr(ArrSort(ks, SBool), tFalse), d)}
		}
		return Val{T: Select(un.H(c.cur, vn, ArrSort(SInt, ArrSort(ks, vs))), m.T)}
	case "seen":
		// seen(k): key k already visited by the (innermost) map range of this loop
		k := f.eval(x.Args[0], c)
		if sk, ok := c.env["$seenkey"]; ok {
			if s, ok := un.heapSort[sk.T.S]; ok {
				return boolVal(Select(un.H(c.cur, sk.T.S, s), k.T))
			}
		}
		for _, key := range f.ranges {
			if s, ok := un.heapSort[key]; ok && keySort(s) == k.T.Sort {
				return boolVal(Select(un.H(c.cur, key, s), k.T))
			}
		}
		f.fail("seen(): no map range in scope")
	}
	// closure-typed variable application
	if v, ok := c.env[x.Fn]; ok && v.Clo != nil {
		var args []Val
		for _, a := range x.Args {
			args = append(args, f.eval(a, c))
		}
		return f.applyPure(v.Clo, args, c.cur)
	}
	if d := un.eng.specFuns[x.Fn]; d != nil {
		var args []Val
		for _, a := range x.Args {
			args = append(args, f.eval(a, c))
		}
		return f.applySpec(d, args, c)
	}
	// a function-typed parameter of the unit with a pure callback contract
	if v, ok := c.env[x.Fn]; ok && v.Go != nil && f.fn != nil {
		if sig, ok := v.Go.Underlying().(*types.Signature); ok && sig.Results().Len() == 1 {
			key := f.fn.String() + "." + x.Fn
			if ct := un.eng.callbacks[key]; ct != nil && ct.Pure {
				var args []Val
				for _, a := range x.Args {
					args = append(args, f.eval(a, c))
				}
				return f.pureCallbackApp(key, v.T, args, sig)
			}
		}
	}
	if i := strings.Index(x.Fn, "."); i > 0 {
		if _, ok := c.env[x.Fn[:i]]; ok {
			return f.eval(EMethod{EIdent{x.Fn[:i]}, x.Fn[i+1:], x.Args}, c)
		}
	}
	f.fail("unknown function %q in contract", x.Fn)
	return Val{}
}

func exprTypeName(e Expr) string {
	switch x := e.(type) {
	case EIdent:
		return x.Name
	case EField:
		return exprTypeName(x.X) + "." + x.Name
	case EUnary:
		if x.Op == "*" {
			return "*" + exprTypeName(x.X)
		}
	}
	return ""
}

// applySpec expands a spec predicate / function.
func (f *Frame) applySpec(d *Contract, args []Val, c *evalCtx) Val {
	un := f.un
	if d.Pkg != "" {
		saved := f.clausePkg
		f.clausePkg = d.Pkg
		defer func() { f.clausePkg = saved }()
	}
	if len(args) != len(d.Params) {
		f.fail("%s expects %d arguments", d.Name, len(d.Params))
	}
	if d.Body != nil && d.Opaque {
		return f.applyOpaque(d, args, c)
	}
	if d.Body == nil || d.Opaque {
		// uninterpreted: a function of its arguments only
		rs, rt := f.specSort(d.Sort)
		var ts []Term
		var as []Sort
		for _, a := range args {
			ts = append(ts, a.T)
			as = append(as, a.T.Sort)
		}
		un.eng.declareUF(d.Name, as, rs)
		if len(ts) == 0 {
			return Val{T: Term{"uf_" + d.Name, rs}, Go: rt}
		}
		return Val{T: mk(rs, "uf_"+d.Name, ts...), Go: rt}
	}
	if c.depth > 12 {
		f.fail("spec function %s: expansion too deep (recursive definitions need `opaque` + axioms)", d.Name)
	}
	env := map[string]Val{}
	for i, p := range d.Params {
		a := args[i]
		if a.T.Sort == "nil" {
			s, gt := f.specSort(p.Type)
			a = Val{T: un.u.Zero(s), Go: gt}
		}
		if a.Go == nil && p.Type != "" {
			if _, gt := f.specSort(p.Type); gt != nil {
				a.Go = gt
			}
		}
		env[p.Name] = a
	}
	nc := &evalCtx{env: env, cur: c.cur, old: c.old, depth: c.depth + 1}
	r := f.eval(d.Body, nc)
	if d.Sort != "" && d.Sort != "Bool" && r.Go == nil {
		if _, gt := f.specSort(d.Sort); gt != nil {
			r.Go = gt
		}
	}
	return r
}

// applyPure evaluates a closure as a pure function of the current state (no obligations).
func (f *Frame) applyPure(clo *Closure, args []Val, st *State) Val {
	child := &Frame{un: f.un, fn: clo.Fn, vals: map[ssa.Value]Val{}, parent: f, depth: f.depth + 1, pure: true, entry: f.entry}
	if len(args) != len(clo.Fn.Params) {
		f.fail("closure %s applied to %d arguments", clo.Fn.Name(), len(args))
	}
	for i, p := range clo.Fn.Params {
		child.vals[p] = args[i]
	}
	for i, fv := range clo.Fn.FreeVars {
		child.vals[fv] = clo.Bind[i]
	}
	s := st.clone()
	s.R = tTrue
	child.body(s)
	if len(child.rets) == 0 {
		f.fail("pure closure %s never returns", clo.Fn.Name())
	}
	// result as an ite over return paths; path conditions are relative to R = true
	res := child.rets[len(child.rets)-1].vals[0].T
	for i := len(child.rets) - 2; i >= 0; i-- {
		res = Ite(child.rets[i].st.R, child.rets[i].vals[0].T, res)
	}
	return Val{T: res, Go: clo.Fn.Signature.Results().At(0).Type()}
}

// sliceShift finds the first `X[name]` in e where X is a slice not depending on bound variables
// and returns the offset of X in its backing row.
func (f *Frame) sliceShift(e Expr, name string, bound []QVar, c *evalCtx) (off Term, ok bool) {
	isBound := func(n string) bool {
		for _, b := range bound {
			if b.Name == n {
				return true
			}
		}
		return false
	}
	var mentions func(e Expr) bool
	mentions = func(e Expr) bool {
		switch x := e.(type) {
		case EIdent:
			return isBound(x.Name)
		case EUnary:
			return mentions(x.X)
		case EBinary:
			return mentions(x.L) || mentions(x.R)
		case ECall:
			for _, a := range x.Args {
				if mentions(a) {
					return true
				}
			}
		case EField:
			return mentions(x.X)
		case EIndex:
			return mentions(x.X) || mentions(x.I)
		case ESlice:
			return mentions(x.X) || (x.Lo != nil && mentions(x.Lo)) || (x.Hi != nil && mentions(x.Hi))
		case EQuant:
			return true
		case EIte:
			return mentions(x.C) || mentions(x.A) || mentions(x.B)
		case ELet:
			return true
		}
		return false
	}
	var walk func(e Expr, ctx *evalCtx) bool
	walk = func(e Expr, ctx *evalCtx) bool {
		switch x := e.(type) {
		case EIndex:
			if id, isID := x.I.(EIdent); isID && id.Name == name && !mentions(x.X) {
				var v Val
				func() {
					defer func() {
						if r := recover(); r != nil {
							if _, u := r.(unsupported); !u {
								panic(r)
							}
						}
					}()
					v = f.eval(x.X, ctx)
				}()
				if v.T.Sort == SSlice {
					off, ok = SOff(v.T), true
					return true
				}
			}
			return walk(x.X, ctx) || walk(x.I, ctx)
		case EUnary:
			return walk(x.X, ctx)
		case EBinary:
			return walk(x.L, ctx) || walk(x.R, ctx)
		case ECall:
			nctx := ctx
			if x.Fn == "old" {
				n := *ctx
				n.cur = ctx.old
				nctx = &n
			}
			for _, a := range x.Args {
				if walk(a, nctx) {
					return true
				}
			}
			// look through spec predicates: the bound variable may be passed as an argument
			if d := f.un.eng.specFuns[x.Fn]; d != nil && d.Body != nil && !d.Opaque && len(d.Params) == len(x.Args) && ctx.depth < 6 {
				for ai, a := range x.Args {
					id, isID := a.(EIdent)
					if !isID || id.Name != name {
						continue
					}
					env := map[string]Val{}
					okEnv := true
					for bi, b := range x.Args {
						if bi == ai {
							continue
						}
						if mentions(b) {
							continue // parameters depending on bound variables stay unbound
						}
						func() {
							defer func() {
								if r := recover(); r != nil {
									if _, u := r.(unsupported); !u {
										panic(r)
									}
									okEnv = false
								}
							}()
							v := f.eval(b, nctx)
							if v.T.Sort == "nil" {
								srt, gt := f.specSort(d.Params[bi].Type)
								v = Val{T: f.un.u.Zero(srt), Go: gt}
							}
							if v.Go == nil && d.Params[bi].Type != "" {
								if _, gt := f.specSort(d.Params[bi].Type); gt != nil {
									v.Go = gt
								}
							}
							env[d.Params[bi].Name] = v
						}()
					}
					if !okEnv {
						continue
					}
					sub := &evalCtx{env: env, cur: nctx.cur, old: nctx.old, depth: ctx.depth + 1}
					if o, ok2 := f.sliceShift(d.Body, d.Params[ai].Name, []QVar{{Name: d.Params[ai].Name}}, sub); ok2 {
						off, ok = o, true
						return true
					}
				}
			}
		case EField:
			return walk(x.X, ctx)
		case ESlice:
			return walk(x.X, ctx)
		case EQuant:
			return walk(x.Body, ctx)
		case EIte:
			return walk(x.C, ctx) || walk(x.A, ctx) || walk(x.B, ctx)
		}
		return false
	}
	walk(e, c)
	return
}

// evalLV evaluates `x.f` (x a pointer to struct) to the location of the field.
func (f *Frame) evalLV(e Expr, c *evalCtx) *LVal {
	un := f.un
	switch x := e.(type) {
	case EField:
		v := f.eval(x.X, c)
		var base *LVal
		if v.LV != nil {
			base = v.LV
		} else {
			if _, ok := v.Go.Underlying().(*types.Pointer); !ok {
				f.fail("location of field %s: receiver is not a pointer", x.Name)
			}
			base = un.lvOfPointer(v.T, v.Go)
		}
		si := un.sinfo(base.Typ)
		idx := si.fieldIndex(x.Name)
		if idx < 0 {
			f.fail("no field %s", x.Name)
		}
		lv := *base
		lv.Path = append(append([]int{}, base.Path...), idx)
		lv.Typ = si.fields[idx].typ
		return &lv
	case EIdent:
		v := f.eval(x, c)
		if v.LV != nil {
			return v.LV
		}
		return un.lvOfPointer(v.T, v.Go)
	}
	f.fail("not a location")
	return nil
}

// lookupType resolves a type name relative to the function being verified (or, for interface-method
// contracts evaluated without a function, relative to the package of the contract).
func (f *Frame) lookupType(name string) types.Type {
	if f.clausePkg != "" {
		if t := f.un.eng.lookupTypeIn(name, f.clausePkg); t != nil {
			return t
		}
	}
	if f.fn != nil {
		if t := f.un.eng.lookupType(name, f.fn); t != nil {
			return t
		}
	}
	if f.pkgPath != "" {
		return f.un.eng.lookupTypeIn(name, f.pkgPath)
	}
	for fr := f.parent; fr != nil; fr = fr.parent {
		if fr.fn != nil {
			if t := f.un.eng.lookupType(name, fr.fn); t != nil {
				return t
			}
		}
	}
	return nil
}

// specParamEnv binds the parameters of a spec function to argument values.
func (f *Frame) specParamEnv(d *Contract, args []Val) map[string]Val {
	env := map[string]Val{}
	for i, p := range d.Params {
		a := args[i]
		if a.T.Sort == "nil" {
			s, gt := f.specSort(p.Type)
			a = Val{T: f.un.u.Zero(s), Go: gt}
		}
		if a.Go == nil && p.Type != "" {
			if _, gt := f.specSort(p.Type); gt != nil {
				a.Go = gt
			}
		}
		env[p.Name] = a
	}
	return env
}

// applyOpaque: an opaque spec function with a body is an uninterpreted function of its arguments AND of the
// heap arrays its body reads (its footprint). Units that `reveal` it also get its definition, as an axiom
// quantified over the parameters for the heap it is applied to.
func (f *Frame) applyOpaque(d *Contract, args []Val, c *evalCtx) Val {
	un := f.un
	eng := un.eng
	fp, ok := eng.footprints[d.Name]
	if !ok && eng.fpBusy[d.Name] {
		// recursive occurrence while the footprint is being computed: contributes nothing new
		rs, rt := f.specSort(d.Sort)
		return Val{T: un.u.Zero(rs), Go: rt}
	}
	if !ok {
		eng.fpBusy[d.Name] = true
		defer delete(eng.fpBusy, d.Name)
		saved := un.rec
		un.rec = map[string]bool{}
		un.inQuant++
		func() {
			defer func() { un.inQuant--; rec := un.rec; un.rec = saved; _ = rec }()
			nc := &evalCtx{env: f.specParamEnv(d, args), cur: c.cur, old: c.old, depth: c.depth + 1}
			recd := un.rec
			f.eval(d.Body, nc)
			for k := range recd {
				if k != "$next" && !isLocalKey(k) {
					fp = append(fp, k)
				}
			}
		}()
		sortStrings(fp)
		eng.footprints[d.Name] = fp
		for _, hn := range fp {
			eng.heapSortHint[hn] = un.heapSort[hn]
		}
	}
	rs, rt := f.specSort(d.Sort)
	var ts []Term
	var as []Sort
	for _, hn := range fp {
		hs, ok := un.heapSort[hn]
		if !ok {
			hs = eng.heapSortHint[hn]
		}
		h := un.H(c.cur, hn, hs)
		ts = append(ts, h)
		as = append(as, h.Sort)
	}
	nh := len(ts)
	for _, a := range f.specParamOrder(d, args) {
		ts = append(ts, a.T)
		as = append(as, a.T.Sort)
	}
	eng.declareUF(d.Name, as, rs)
	app := mk(rs, "uf_"+d.Name, ts...)
	if un.reveals[d.Name] && un.axHeaps == nil {
		key := d.Name
		for _, h := range ts[:nh] {
			key += "|" + h.S
		}
		if !un.revealed[key] {
			un.revealed[key] = true
			var bvs []Term
			var bargs []Val
			for i, p := range d.Params {
				srt, gt := f.specSort(p.Type)
				qcounter++
				bv := Term{fmt.Sprintf("%s!rv%d", p.Name, qcounter), srt}
				_ = i
				bvs = append(bvs, bv)
				bargs = append(bargs, Val{T: bv, Go: gt})
			}
			un.inQuant++
			nc := &evalCtx{env: f.specParamEnv(d, bargs), cur: c.cur, old: c.old, depth: c.depth + 1}
			body := f.eval(d.Body, nc).T
			un.inQuant--
			lhs := mk(rs, "uf_"+d.Name, append(append([]Term{}, ts[:nh]...), bvs...)...)
			ax := Forall(bvs, Eq(lhs, body), lhs)
			un.decls = append(un.decls, "(assert "+ax.S+")")
		}
	}
	return Val{T: app, Go: rt}
}

func (f *Frame) specParamOrder(d *Contract, args []Val) []Val {
	env := f.specParamEnv(d, args)
	var out []Val
	for _, p := range d.Params {
		out = append(out, env[p.Name])
	}
	return out
}

// splitGoal breaks a goal expression into independently provable parts: top-level conjunctions, the bodies of
// (non-opaque) spec predicates, and conjunctions under a universal quantifier (forall x :: G ==> A && B).
// Hypotheses are never split; only proof goals are.
func (f *Frame) splitGoal(e Expr, env map[string]Val, depth int) []Expr {
	if depth > 6 {
		return []Expr{e}
	}
	switch x := e.(type) {
	case EBinary:
		if x.Op == "&&" {
			return append(f.splitGoal(x.L, env, depth+1), f.splitGoal(x.R, env, depth+1)...)
		}
		if x.Op == "==>" {
			var out []Expr
			for _, p := range f.splitGoal(x.R, env, depth+1) {
				out = append(out, EBinary{"==>", x.L, p})
			}
			return out
		}
	case ECall:
		if d := f.un.eng.specFuns[x.Fn]; d != nil && d.Body != nil && !d.Opaque && d.Sort == "Bool" && len(d.Params) == len(x.Args) {
			// substitute by let-binding the parameters
			var out []Expr
			for _, p := range f.splitGoal(d.Body, env, depth+1) {
				// the arguments are evaluated in the caller's scope (a parameter may be named like a variable of the
				// argument expressions): bind them to fresh names first, then the parameters to those
				var w Expr = p
				for i := len(d.Params) - 1; i >= 0; i-- {
					w = ELet{Name: d.Params[i].Name, V: EIdent{fmt.Sprintf("$arg%d_%d", depth, i)}, B: w, Typ: d.Params[i].Type}
				}
				for i := len(d.Params) - 1; i >= 0; i-- {
					w = ELet{Name: fmt.Sprintf("$arg%d_%d", depth, i), V: x.Args[i], B: w, Typ: d.Params[i].Type}
				}
				out = append(out, w)
			}
			return out
		}
	case EQuant:
		if x.Forall {
			var out []Expr
			parts := f.splitGoal(x.Body, env, depth+1)
			for _, p := range parts {
				if len(parts) > 1 && len(x.Pats) > 0 {
					// a part may not mention the pattern terms any more: keep them alive with trigger markers
					var targs []Expr
					for _, grp := range x.Pats {
						targs = append(targs, grp...)
					}
					p = EBinary{"&&", ECall{"$trig", targs}, p}
				}
				out = append(out, EQuant{Forall: true, Vars: x.Vars, Body: p, Pats: x.Pats})
			}
			return out
		}
	case ELet:
		var out []Expr
		for _, p := range f.splitGoal(x.B, env, depth+1) {
			out = append(out, ELet{Name: x.Name, V: x.V, B: p, Typ: x.Typ})
		}
		return out
	}
	return []Expr{e}
}

// evalGoals evaluates the independently provable parts of a clause.
func (f *Frame) evalGoals(cl *Clause, env map[string]Val, cur, old *State) []Term {
	parts := f.splitGoal(cl.E, env, 0)
	if len(parts) <= 1 {
		return []Term{f.evalClause(cl, env, cur, old)}
	}
	var out []Term
	for _, p := range parts {
		sub := &Clause{Kind: cl.Kind, Text: cl.Text, E: p, Pos: cl.Pos, Idx: cl.Idx, Tag: cl.Tag, Pkg: cl.Pkg}
		func() {
			defer func() {
				if r := recover(); r != nil {
					if _, ok := r.(unsupported); ok {
						// a part whose patterns no longer mention its variables etc.: fall back to the whole clause
						out = nil
						return
					}
					panic(r)
				}
			}()
			if out != nil || len(out) == 0 {
				out = append(out, f.evalClause(sub, env, cur, old))
			}
		}()
		if out == nil {
			return []Term{f.evalClause(cl, env, cur, old)}
		}
	}
	return out
}

// uncapturedOuter: a closure's contract names a parameter or local of an enclosing function that the closure does not (or
// no longer) capture. The closure cannot know that value: the name stands for an arbitrary value of its type, so a clause
// that depends on it fails as a named obligation instead of making the whole contract unreadable.
func (f *Frame) uncapturedOuter(name string) (Val, bool) {
	if f.fn == nil || f.fn.Parent() == nil {
		return Val{}, false
	}
	for p := f.fn.Parent(); p != nil; p = p.Parent() {
		var t types.Type
		for _, q := range p.Params {
			if q.Name() == name {
				t = q.Type()
			}
		}
		if t == nil {
			for _, q := range p.FreeVars {
				if q.Name() == name {
					if pt, ok := q.Type().Underlying().(*types.Pointer); ok {
						t = pt.Elem()
					}
				}
			}
		}
		if t == nil {
			for _, b := range p.Blocks {
				for _, in := range b.Instrs {
					if d, ok := in.(*ssa.DebugRef); ok && d.Object() != nil && d.Object().Name() == name && !d.IsAddr {
						t = d.X.Type()
					}
				}
			}
		}
		if t != nil {
			if f.un.outer == nil {
				f.un.outer = map[string]Val{}
			}
			if v, ok := f.un.outer[name]; ok {
				return v, true
			}
			v := Val{T: f.un.fresh("uncaptured_"+name, f.un.u.SortOf(t)), Go: t}
			f.un.outer[name] = v
			f.un.note("the contract names " + name + ", a variable of the enclosing function that the closure does not capture: arbitrary value")
			return v, true
		}
	}
	return Val{}, false
}
