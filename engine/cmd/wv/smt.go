package main

import (
	"fmt"
	"go/types"
	"hash/fnv"
	"regexp"
	"sort"
	"strings"
)

// Sort is an SMT-LIB sort expression.
type Sort string

const (
	SInt   Sort = "Int"
	SBool  Sort = "Bool"
	SStr   Sort = "Str"
	SSlice Sort = "Slice"
	SIface Sort = "Iface"
)

func ArrSort(k, v Sort) Sort { return Sort("(Array " + string(k) + " " + string(v) + ")") }

// Term is an SMT-LIB term with its sort.
type Term struct {
	S    string
	Sort Sort
}

func (t Term) String() string { return t.S }

func mk(sort Sort, op string, args ...Term) Term {
	var b strings.Builder
	b.WriteByte('(')
	b.WriteString(op)
	for _, a := range args {
		b.WriteByte(' ')
		b.WriteString(a.S)
	}
	b.WriteByte(')')
	return Term{b.String(), sort}
}

var (
	tTrue  = Term{"true", SBool}
	tFalse = Term{"false", SBool}
)

func IntLit(n int64) Term {
	if n < 0 {
		return Term{fmt.Sprintf("(- %d)", -n), SInt}
	}
	return Term{fmt.Sprintf("%d", n), SInt}
}
func IntLitS(s string) Term {
	if strings.HasPrefix(s, "-") {
		return Term{"(- " + s[1:] + ")", SInt}
	}
	return Term{s, SInt}
}
func BoolLit(b bool) Term {
	if b {
		return tTrue
	}
	return tFalse
}

func And(ts ...Term) Term {
	var xs []Term
	for _, t := range ts {
		if t.S == "true" {
			continue
		}
		if t.S == "false" {
			return tFalse
		}
		xs = append(xs, t)
	}
	if len(xs) == 0 {
		return tTrue
	}
	if len(xs) == 1 {
		return xs[0]
	}
	return mk(SBool, "and", xs...)
}
func Or(ts ...Term) Term {
	var xs []Term
	for _, t := range ts {
		if t.S == "false" {
			continue
		}
		if t.S == "true" {
			return tTrue
		}
		xs = append(xs, t)
	}
	if len(xs) == 0 {
		return tFalse
	}
	if len(xs) == 1 {
		return xs[0]
	}
	return mk(SBool, "or", xs...)
}
func Not(t Term) Term {
	if t.S == "true" {
		return tFalse
	}
	if t.S == "false" {
		return tTrue
	}
	return mk(SBool, "not", t)
}
func Implies(a, b Term) Term {
	if a.S == "true" {
		return b
	}
	if b.S == "true" || a.S == "false" {
		return tTrue
	}
	return mk(SBool, "=>", a, b)
}
func Eq(a, b Term) Term {
	if a.S == b.S {
		return tTrue
	}
	return mk(SBool, "=", a, b)
}
func Neq(a, b Term) Term { return Not(Eq(a, b)) }
func Ite(c, a, b Term) Term {
	if c.S == "true" {
		return a
	}
	if c.S == "false" {
		return b
	}
	if a.S == b.S {
		return a
	}
	return mk(a.Sort, "ite", c, a, b)
}
func Lt(a, b Term) Term { return mk(SBool, "<", a, b) }
func Le(a, b Term) Term { return mk(SBool, "<=", a, b) }
func Gt(a, b Term) Term { return mk(SBool, ">", a, b) }
func Ge(a, b Term) Term { return mk(SBool, ">=", a, b) }
func Add(a, b Term) Term {
	// off + (k - off) == k  (quantifiers over slices range over absolute positions)
	if strings.HasPrefix(b.S, "(- ") && strings.HasSuffix(b.S, " "+a.S+")") {
		inner := b.S[3 : len(b.S)-len(a.S)-2]
		if balanced(inner) {
			return Term{inner, SInt}
		}
	}
	if a.S == "0" {
		return b
	}
	if b.S == "0" {
		return a
	}
	return mk(SInt, "+", a, b)
}

func balanced(s string) bool {
	d := 0
	for i, c := range s {
		switch c {
		case '(':
			d++
		case ')':
			d--
			if d < 0 {
				return false
			}
		case ' ':
			if d == 0 && i > 0 {
				return false
			}
		}
	}
	return d == 0 && s != ""
}
func Sub(a, b Term) Term {
	if b.S == "0" {
		return a
	}
	return mk(SInt, "-", a, b)
}
func Ix(k Term) Term     { return mk(SBool, "ix", k) }
func Mul(a, b Term) Term { return mk(SInt, "*", a, b) }

func elemSort(arr Sort) Sort {
	// "(Array K V)" -> V
	s := string(arr)
	if !strings.HasPrefix(s, "(Array ") {
		panic("not an array sort: " + s)
	}
	inner := s[len("(Array ") : len(s)-1]
	// K may itself be parenthesised
	depth := 0
	for i := 0; i < len(inner); i++ {
		switch inner[i] {
		case '(':
			depth++
		case ')':
			depth--
		case ' ':
			if depth == 0 {
				return Sort(inner[i+1:])
			}
		}
	}
	panic("bad array sort " + s)
}
func keySort(arr Sort) Sort {
	s := string(arr)
	inner := s[len("(Array ") : len(s)-1]
	depth := 0
	for i := 0; i < len(inner); i++ {
		switch inner[i] {
		case '(':
			depth++
		case ')':
			depth--
		case ' ':
			if depth == 0 {
				return Sort(inner[:i])
			}
		}
	}
	panic("bad array sort " + s)
}
func Select(a, i Term) Term   { return mk(elemSort(a.Sort), "select", a, i) }
func Store(a, i, v Term) Term { return mk(a.Sort, "store", a, i, v) }
func ConstArr(s Sort, v Term) Term {
	if v.S == "0" || v.S == "false" || v.S == "true" {
		return Term{"((as const " + string(s) + ") " + v.S + ")", s}
	}
	// cvc5 only accepts values in constant arrays: use a named all-zero array with an axiom
	n := "zarr_" + sanitize(string(s))
	zeroArrs[n] = [2]string{string(s), v.S}
	return Term{n, s}
}

// zeroArrs: name -> (array sort, element term); declared in the prelude.
var zeroArrs = map[string][2]string{}

func SliceMk(base, off, ln, cp Term) Term { return mk(SSlice, "mk-slice", base, off, ln, cp) }
func SBase(s Term) Term                   { return mk(SInt, "sbase", s) }
func SOff(s Term) Term                    { return mk(SInt, "soff", s) }
func SLen(s Term) Term                    { return mk(SInt, "slen", s) }
func SCap(s Term) Term                    { return mk(SInt, "scap", s) }
func IfaceMk(tag, v Term) Term            { return mk(SIface, "mk-iface", tag, v) }
func ITag(i Term) Term                    { return mk(SInt, "itag", i) }
func IVal(i Term) Term                    { return mk(SInt, "ival", i) }

var nilSlice = Term{"(mk-slice 0 0 0 0)", SSlice}
var nilIface = Term{"(mk-iface 0 0)", SIface}

func Forall(vars []Term, body Term, pats ...Term) Term {
	if len(pats) == 0 {
		return quant("forall", vars, body, nil)
	}
	return quant("forall", vars, body, [][]Term{pats})
}
func Exists(vars []Term, body Term, pats ...Term) Term {
	if len(pats) == 0 {
		return quant("exists", vars, body, nil)
	}
	return quant("exists", vars, body, [][]Term{pats})
}
func quant(q string, vars []Term, body Term, pats [][]Term) Term {
	if len(vars) == 0 {
		return body
	}
	var b strings.Builder
	b.WriteString("(" + q + " (")
	for _, v := range vars {
		fmt.Fprintf(&b, "(%s %s)", v.S, v.Sort)
	}
	b.WriteString(") ")
	if len(pats) > 0 {
		b.WriteString("(! " + body.S)
		for _, grp := range pats {
			b.WriteString(" :pattern (")
			for i, p := range grp {
				if i > 0 {
					b.WriteByte(' ')
				}
				b.WriteString(p.S)
			}
			b.WriteString(")")
		}
		b.WriteString(")")
	} else {
		b.WriteString(body.S)
	}
	b.WriteString(")")
	return Term{b.String(), SBool}
}

// ---------------------------------------------------------------------------------------
// Sort universe: maps Go types to SMT sorts, collects datatype declarations.

type structInfo struct {
	sort   Sort
	typ    *types.Struct
	named  string
	fields []fieldInfo
	ctor   string
}
type fieldInfo struct {
	name  string // Go or ghost field name
	acc   string // accessor
	sort  Sort
	typ   types.Type // nil for ghost fields
	ghost bool
}

type Universe struct {
	structs    map[string]*structInfo // by sort name
	structList []*structInfo
	typeTags   map[string]int
	tagTypes   []types.Type
	tagIDs     []int
	tagUsed    map[int]bool
	strNames   map[string]bool
	strLits    map[string]string // literal -> const name
	strOrder   []string
	ghostFlds  map[string][]ghostFieldDecl // type key -> ghost fields
	boxes      map[Sort]bool
	extraSorts map[string]bool
}

type ghostFieldDecl struct {
	name string
	sort Sort
	typ  types.Type // Go type when the ghost field holds a Go value (e.g. a pointer), else nil
}

func NewUniverse() *Universe {
	return &Universe{structs: map[string]*structInfo{}, typeTags: map[string]int{}, tagUsed: map[int]bool{}, strNames: map[string]bool{}, strLits: map[string]string{},
		ghostFlds: map[string][]ghostFieldDecl{}, boxes: map[Sort]bool{}, extraSorts: map[string]bool{}}
}

func sanitize(s string) string {
	var b strings.Builder
	for _, r := range s {
		switch {
		case r >= 'a' && r <= 'z', r >= 'A' && r <= 'Z', r >= '0' && r <= '9', r == '_':
			b.WriteRune(r)
		case r == '*':
			b.WriteString("P")
		case r == '[':
			b.WriteString("L")
		case r == ']':
			b.WriteString("J")
		default:
			b.WriteByte('_')
		}
	}
	return b.String()
}

func shortQual(p *types.Package) string {
	if p == nil {
		return ""
	}
	return p.Name()
}

// TypeKey is a short canonical name for a Go type, used in heap names.
var aliasRe = regexp.MustCompile(`\b(uint8|rune)\b`)

// TypeKey names a type in heap names. byte/uint8 and rune/int32 are the same types and get one name.
func TypeKey(t types.Type) string {
	s := aliasRe.ReplaceAllStringFunc(types.TypeString(t, shortQual), func(m string) string {
		if m == "uint8" {
			return "byte"
		}
		return "int32"
	})
	return sanitize(s)
}

func (u *Universe) SortOf(t types.Type) Sort {
	switch tt := t.(type) {
	case *types.Named:
		if st, ok := tt.Underlying().(*types.Struct); ok {
			return u.structSort(tt, st)
		}
		return u.SortOf(tt.Underlying())
	case *types.Alias:
		return u.SortOf(types.Unalias(tt))
	case *types.Basic:
		switch {
		case tt.Info()&types.IsBoolean != 0:
			return SBool
		case tt.Info()&types.IsString != 0:
			return SStr
		case tt.Kind() == types.UnsafePointer:
			return SInt
		default:
			return SInt // integers; floats and complex are opaque Ints
		}
	case *types.Pointer, *types.Map, *types.Chan, *types.Signature:
		return SInt
	case *types.Slice:
		return SSlice
	case *types.Interface:
		return SIface
	case *types.Struct:
		return u.structSort(nil, tt)
	case *types.Array:
		return SInt // array values are opaque; array objects live in element heaps
	case *types.Tuple:
		return SInt
	case *types.TypeParam:
		return SInt
	}
	panic(fmt.Sprintf("SortOf: unsupported type %T %v", t, t))
}

func (u *Universe) structSort(named *types.Named, st *types.Struct) Sort {
	var key string
	if named != nil {
		key = TypeKey(named)
	} else {
		key = "anon_" + sanitize(st.String())
	}
	sname := "S_" + key
	if si, ok := u.structs[sname]; ok {
		return si.sort
	}
	si := &structInfo{sort: Sort(sname), typ: st, named: key, ctor: "mk_" + key}
	u.structs[sname] = si
	for i := 0; i < st.NumFields(); i++ {
		f := st.Field(i)
		fs := u.SortOf(f.Type())
		si.fields = append(si.fields, fieldInfo{name: f.Name(), acc: fmt.Sprintf("f_%s_%s", key, fieldAccName(st, i)), sort: fs, typ: f.Type()})
	}
	for _, g := range u.ghostFlds[key] {
		si.fields = append(si.fields, fieldInfo{name: "#" + g.name, acc: "g_" + key + "_" + sanitize(g.name), sort: g.sort, typ: g.typ, ghost: true})
	}
	u.structList = append(u.structList, si) // dependencies were appended first (post-order)
	return si.sort
}

func (u *Universe) StructInfo(s Sort) *structInfo { return u.structs[string(s)] }

func (u *Universe) Zero(s Sort) Term {
	if s == "" {
		panic("Zero of empty sort")
	}
	switch s {
	case SInt:
		return IntLit(0)
	case SBool:
		return tFalse
	case SStr:
		return Term{"str_empty", SStr}
	case SSlice:
		return nilSlice
	case SIface:
		return nilIface
	}
	if si := u.structs[string(s)]; si != nil {
		var args []Term
		for _, f := range si.fields {
			args = append(args, u.Zero(f.sort))
		}
		if len(args) == 0 {
			return Term{si.ctor, s}
		}
		return mk(s, si.ctor, args...)
	}
	if strings.HasPrefix(string(s), "(Array ") {
		return ConstArr(s, u.Zero(elemSort(s)))
	}
	// uninterpreted spec sort: a designated zero constant
	u.extraSorts[string(s)] = true
	return Term{"zero_" + sanitize(string(s)), s}
}

// GetField projects a field out of a struct-sorted term.
func (u *Universe) GetField(x Term, idx int) Term {
	si := u.structs[string(x.Sort)]
	f := si.fields[idx]
	return mk(f.sort, f.acc, x)
}

// SetField returns x with field idx replaced by v.
func (u *Universe) SetField(x Term, idx int, v Term) Term {
	si := u.structs[string(x.Sort)]
	var args []Term
	for i, f := range si.fields {
		if i == idx {
			args = append(args, v)
		} else {
			args = append(args, mk(f.sort, f.acc, x))
		}
	}
	return mk(x.Sort, si.ctor, args...)
}

func (si *structInfo) fieldIndex(name string) int {
	for i, f := range si.fields {
		if f.name == name {
			return i
		}
	}
	return -1
}

func (u *Universe) TypeTag(t types.Type) Term {
	k := types.TypeString(t, nil)
	if id, ok := u.typeTags[k]; ok {
		return IntLit(int64(id))
	}
	// the tag is a function of the type's name, not of the order in which types are met: a change in one unit must not
	// renumber the tags in the queries of every other unit
	h := fnv.New32a()
	h.Write([]byte(k))
	id := int(h.Sum32()&0x3fffffff) + 1
	for u.tagUsed[id] {
		id++
	}
	u.tagUsed[id] = true
	u.typeTags[k] = id
	u.tagTypes = append(u.tagTypes, t)
	u.tagIDs = append(u.tagIDs, id)
	return IntLit(int64(id))
}

func (u *Universe) StrLit(s string) Term {
	if s == "" {
		return Term{"str_empty", SStr}
	}
	if n, ok := u.strLits[s]; ok {
		return Term{n, SStr}
	}
	h := fnv.New64a()
	h.Write([]byte(s))
	n := fmt.Sprintf("strlit_%016x", h.Sum64())
	for u.strNames[n] {
		n += "x"
	}
	u.strNames[n] = true
	u.strLits[s] = n
	u.strOrder = append(u.strOrder, s)
	return Term{n, SStr}
}

// Box / Unbox turn a non-Int payload into an interface payload (Int).
func (u *Universe) Box(v Term) Term {
	if v.Sort == SInt {
		return v
	}
	u.boxes[v.Sort] = true
	return mk(SInt, "box_"+sanitize(string(v.Sort)), v)
}
func (u *Universe) Unbox(v Term, s Sort) Term {
	if s == SInt {
		return v
	}
	u.boxes[s] = true
	return mk(s, "unbox_"+sanitize(string(s)), v)
}

// Prelude emits the fixed declarations. It must be called after translation, when all
// struct sorts, literals and boxes are known.
func (u *Universe) Prelude() string {
	var b strings.Builder
	b.WriteString("(set-logic ALL)\n")
	b.WriteString("(declare-datatypes ((Slice 0)) (((mk-slice (sbase Int) (soff Int) (slen Int) (scap Int)))))\n")
	b.WriteString("(declare-datatypes ((Iface 0)) (((mk-iface (itag Int) (ival Int)))))\n")
	b.WriteString("(declare-fun ix (Int) Bool)\n(assert (forall ((k Int)) (! (ix k) :pattern ((ix k)))))\n")
	b.WriteString("(declare-sort Str 0)\n")
	b.WriteString("(declare-fun strlen (Str) Int)\n(declare-fun strat (Str Int) Int)\n(declare-const str_empty Str)\n")
	b.WriteString("(assert (= (strlen str_empty) 0))\n")
	b.WriteString("(assert (forall ((s Str)) (! (and (>= (strlen s) 0) (<= (strlen s) 1152921504606846976)) :pattern ((strlen s)))))\n")
	b.WriteString("(assert (forall ((s Str)) (! (=> (= (strlen s) 0) (= s str_empty)) :pattern ((strlen s)))))\n")
	b.WriteString("(assert (forall ((s Str) (i Int)) (! (and (<= 0 (strat s i)) (< (strat s i) 256)) :pattern ((strat s i)))))\n")
	// string equality is extensional
	b.WriteString("(declare-fun strdiff (Str Str) Int)\n")
	b.WriteString("(assert (forall ((s Str) (t Str)) (! (=> (and (= (strlen s) (strlen t)) (not (= s t))) (and (<= 0 (strdiff s t)) (< (strdiff s t) (strlen s)) (not (= (strat s (strdiff s t)) (strat t (strdiff s t)))))) :pattern ((strdiff s t)))))\n")
	// total order on strings (strings.Compare / < on strings), lexicographic facts kept abstract
	b.WriteString("(declare-fun strcmp (Str Str) Int)\n")
	b.WriteString("(assert (forall ((s Str) (t Str)) (! (and (<= (- 1) (strcmp s t)) (<= (strcmp s t) 1) (= (= (strcmp s t) 0) (= s t)) (= (strcmp s t) (- (strcmp t s)))) :pattern ((strcmp s t)))))\n")
	b.WriteString("(assert (forall ((a Str) (b Str) (c Str)) (! (=> (and (<= (strcmp a b) 0) (<= (strcmp b c) 0)) (<= (strcmp a c) 0)) :pattern ((strcmp a b) (strcmp b c)))))\n")
	b.WriteString("(assert (forall ((a Str) (b Str) (c Str)) (! (=> (and (< (strcmp a b) 0) (<= (strcmp b c) 0)) (< (strcmp a c) 0)) :pattern ((strcmp a b) (strcmp b c)))))\n")
	b.WriteString("(assert (forall ((a Str) (b Str) (c Str)) (! (=> (and (<= (strcmp a b) 0) (< (strcmp b c) 0)) (< (strcmp a c) 0)) :pattern ((strcmp a b) (strcmp b c)))))\n")
	es := make([]string, 0, len(u.extraSorts))
	for s := range u.extraSorts {
		es = append(es, s)
	}
	sort.Strings(es)
	for _, s := range es {
		if !strings.HasPrefix(s, "(") && !u.declaredSpecSort(s) {
			fmt.Fprintf(&b, "(declare-sort %s 0)\n", s)
		}
		fmt.Fprintf(&b, "(declare-const zero_%s %s)\n", sanitize(s), s)
	}
	for _, si := range u.structList {
		fmt.Fprintf(&b, "(declare-datatypes ((%s 0)) (((%s", si.sort, si.ctor)
		for _, f := range si.fields {
			fmt.Fprintf(&b, " (%s %s)", f.acc, f.sort)
		}
		b.WriteString("))))\n")
	}
	zn := make([]string, 0, len(zeroArrs))
	for n := range zeroArrs {
		zn = append(zn, n)
	}
	sort.Strings(zn)
	for _, n := range zn {
		za := zeroArrs[n]
		fmt.Fprintf(&b, "(declare-const %s %s)\n(assert (forall ((k %s)) (! (= (select %s k) %s) :pattern ((select %s k)))))\n", n, za[0], keySort(Sort(za[0])), n, za[1], n)
	}
	sort.Slice(u.strOrder, func(i, j int) bool { return u.strLits[u.strOrder[i]] < u.strLits[u.strOrder[j]] })
	for i, s := range u.strOrder {
		n := u.strLits[s]
		fmt.Fprintf(&b, "(declare-const %s Str)\n(assert (= (strlen %s) %d))\n", n, n, len(s))
		for j := 0; j < len(s); j++ {
			fmt.Fprintf(&b, "(assert (= (strat %s %d) %d))\n", n, j, s[j])
		}
		_ = i
	}
	if len(u.strOrder) > 1 {
		b.WriteString("(assert (distinct")
		for _, s := range u.strOrder {
			b.WriteString(" " + u.strLits[s])
		}
		b.WriteString("))\n")
	}
	bs := make([]string, 0, len(u.boxes))
	for s := range u.boxes {
		bs = append(bs, string(s))
	}
	sort.Strings(bs)
	for _, s := range bs {
		n := sanitize(s)
		fmt.Fprintf(&b, "(declare-fun box_%s (%s) Int)\n(declare-fun unbox_%s (Int) %s)\n", n, s, n, s)
		fmt.Fprintf(&b, "(assert (forall ((x %s)) (! (= (unbox_%s (box_%s x)) x) :pattern ((box_%s x)))))\n", s, n, n, n)
	}
	return b.String()
}

func (u *Universe) declaredSpecSort(s string) bool { return false }

// fieldAccName: field name, made unique for blank fields.
func fieldAccName(st *types.Struct, i int) string {
	n := st.Field(i).Name()
	if n == "_" {
		return fmt.Sprintf("blank%d", i)
	}
	return sanitize(n)
}
