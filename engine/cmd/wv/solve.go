package main

import (
	"bytes"
	"context"
	"fmt"
	"os"
	"os/exec"
	"path/filepath"
	"strings"
	"sync"
	"time"
)

type SolveResult struct {
	Status string // "unsat", "sat", "unknown"
	Solver string
	Ms     int64
	Output string
	File   string
}

type solverSpec struct {
	name string
	args func(file string, timeoutS int, seed int) []string
	bin  string
}

var solvers = []solverSpec{
	{"z3-5.1", func(f string, t, seed int) []string {
		return []string{fmt.Sprintf("-T:%d", t), fmt.Sprintf("smt.random_seed=%d", seed), f}
	}, "z3-new"},
	{"z3-4.8", func(f string, t, seed int) []string {
		return []string{fmt.Sprintf("-T:%d", t), fmt.Sprintf("smt.random_seed=%d", seed), f}
	}, "z3"},
	{"cvc5-1.0", func(f string, t, seed int) []string {
		return []string{fmt.Sprintf("--tlimit=%d", t*1000), fmt.Sprintf("--seed=%d", seed), f}
	}, "cvc5"},
}

func availableSolvers() []solverSpec {
	var out []solverSpec
	for _, s := range solvers {
		if _, err := exec.LookPath(s.bin); err == nil {
			out = append(out, s)
		}
	}
	return out
}

func runSolver(ctx context.Context, s solverSpec, file string, timeoutS, seed int) SolveResult {
	start := time.Now()
	cctx, cancel := context.WithTimeout(ctx, time.Duration(timeoutS+2)*time.Second)
	defer cancel()
	cmd := exec.CommandContext(cctx, s.bin, s.args(file, timeoutS, seed)...)
	var out bytes.Buffer
	cmd.Stdout = &out
	cmd.Stderr = &out
	cmd.Run()
	ms := time.Since(start).Milliseconds()
	txt := out.String()
	first := strings.TrimSpace(strings.SplitN(txt, "\n", 2)[0])
	st := "unknown"
	switch first {
	case "unsat":
		st = "unsat"
	case "sat":
		st = "sat"
	}
	if strings.HasPrefix(first, "(error") {
		st = "error"
	}
	return SolveResult{Status: st, Solver: s.name, Ms: ms, Output: txt, File: file}
}

// solveRace runs the given solvers on one query; the first definite answer wins.
// z3 5.1 runs first and alone for a short grace period (cheap queries dominate), then the others join.
func solveRace(file string, timeoutS, seed int, sv []solverSpec) SolveResult {
	ctx, cancel := context.WithCancel(context.Background())
	defer cancel()
	ch := make(chan SolveResult, len(sv))
	launched := 0
	launch := func(s solverSpec) {
		launched++
		go func() { ch <- runSolver(ctx, s, file, timeoutS, seed) }()
	}
	launch(sv[0])
	var results []SolveResult
	grace := time.After(1500 * time.Millisecond)
	rest := sv[1:]
	for {
		select {
		case r := <-ch:
			results = append(results, r)
			if r.Status == "unsat" || r.Status == "sat" {
				return r
			}
			if len(rest) > 0 {
				for _, s := range rest {
					launch(s)
				}
				rest = nil
			}
			if len(results) == launched {
				best := results[0]
				for _, x := range results {
					if x.Status == "error" {
						best = x
					}
				}
				if best.Status == "error" {
					// an error from one solver (unsupported syntax) is not an answer
					for _, x := range results {
						if x.Status != "error" {
							return x
						}
					}
				}
				return best
			}
		case <-grace:
			for _, s := range rest {
				launch(s)
			}
			rest = nil
		}
	}
}

type job struct {
	un      *Unit
	obl     *Obl
	res     SolveResult
	queries int
	split   int // number of case-split leaves used (0 = proved directly)
}

// prove discharges one obligation, case-splitting on control-flow merges when the solvers give up.
func prove(j *job, prelude, file string, timeoutS, seed int, sv []solverSpec, extra []Term, level int) SolveResult {
	os.WriteFile(file, []byte(j.un.Query(j.obl, prelude, nil, extra...)), 0o644)
	j.queries++
	r := solveRace(file, timeoutS, seed, sv)
	if r.Status != "unknown" || level >= len(j.obl.Splits) || j.queries > 48 {
		return r
	}
	ds := j.obl.Splits[len(j.obl.Splits)-1-level]
	if len(ds) < 2 {
		return prove2(j, prelude, file, timeoutS, seed, sv, extra, level+1, r)
	}
	total := SolveResult{Status: "unsat", Solver: "split", File: file}
	for i, d := range ds {
		sub := prove(j, prelude, fmt.Sprintf("%s.s%d_%d.smt2", strings.TrimSuffix(file, ".smt2"), level, i), timeoutS, seed, sv, append(append([]Term{}, extra...), d), level+1)
		total.Ms += sub.Ms
		if sub.Status == "unsat" {
			j.split++
			total.Solver = "split/" + sub.Solver
			continue
		}
		sub.Ms = total.Ms
		return sub
	}
	return total
}

func prove2(j *job, prelude, file string, timeoutS, seed int, sv []solverSpec, extra []Term, level int, prev SolveResult) SolveResult {
	if level >= len(j.obl.Splits) {
		return prev
	}
	return prove(j, prelude, file, timeoutS, seed, sv, extra, level)
}

func solveAll(jobs []*job, prelude string, dir string, timeoutS, seed, workers int) {
	os.MkdirAll(dir, 0o755)
	sv := availableSolvers()
	var wg sync.WaitGroup
	ch := make(chan *job)
	for w := 0; w < workers; w++ {
		wg.Add(1)
		go func() {
			defer wg.Done()
			for j := range ch {
				file := filepath.Join(dir, sanitize(j.obl.Name)+".smt2")
				if j.obl.Smoke {
					os.WriteFile(file, []byte(j.un.Query(j.obl, prelude, nil)), 0o644)
					j.res = runSolver(context.Background(), sv[0], file, 3, seed)
				} else {
					start := time.Now()
					j.res = prove(j, prelude, file, timeoutS, seed, sv, nil, 0)
					j.res.Ms = time.Since(start).Milliseconds()
				}
			}
		}()
	}
	for _, j := range jobs {
		ch <- j
	}
	close(ch)
	wg.Wait()
}
