package main

import (
	"fmt"
	"os"
	"regexp"
	"strings"
	"unicode"
)

// ---------------------------------------------------------------------------------------
// Contract expression AST

type Expr interface{ exprNode() }

type (
	EIdent struct{ Name string }
	EInt   struct{ V string }
	EStr   struct{ V string }
	EBool  struct{ V bool }
	ENil   struct{}
	EUnary struct {
		Op string
		X  Expr
	}
	EBinary struct {
		Op   string
		L, R Expr
	}
	ECall struct {
		Fn   string
		Args []Expr
	}
	EField struct {
		X    Expr
		Name string
	}
	EIndex struct{ X, I Expr }
	ESlice struct{ X, Lo, Hi Expr }
	// ESetOf: `setof k T :: body` -- the set {k | body} as an array T -> Bool (comprehension)
	ESetOf struct {
		Var  QVar
		Body Expr
	}
	EQuant struct {
		Forall bool
		Vars   []QVar
		Body   Expr
		Pats   [][]Expr
	}
	EIte    struct{ C, A, B Expr }
	EMethod struct {
		X    Expr
		Name string
		Args []Expr
	}
	ELet struct {
		Name string
		V, B Expr
		Typ  string // declared type of the bound name (parameter substitution), may be empty
	}
)

type QVar struct{ Name, Type string }

func (EIdent) exprNode()  {}
func (EInt) exprNode()    {}
func (EStr) exprNode()    {}
func (EBool) exprNode()   {}
func (ENil) exprNode()    {}
func (EUnary) exprNode()  {}
func (EBinary) exprNode() {}
func (ECall) exprNode()   {}
func (EField) exprNode()  {}
func (EIndex) exprNode()  {}
func (ESlice) exprNode()  {}
func (EQuant) exprNode()  {}
func (ESetOf) exprNode()  {}
func (EIte) exprNode()    {}
func (ELet) exprNode()    {}
func (EMethod) exprNode() {}

// ---------------------------------------------------------------------------------------
// Lexer

type tok struct {
	k string // "id", "int", "str", "op", "eof"
	v string
}

func lex(s string) ([]tok, error) {
	var out []tok
	i := 0
	for i < len(s) {
		c := s[i]
		switch {
		case c == ' ' || c == '\t' || c == '\n':
			i++
		case unicode.IsLetter(rune(c)) || c == '_' || c == '#':
			j := i + 1
			for j < len(s) && (unicode.IsLetter(rune(s[j])) || unicode.IsDigit(rune(s[j])) || s[j] == '_' || s[j] == '#' || s[j] == '$') {
				j++
			}
			out = append(out, tok{"id", s[i:j]})
			i = j
		case c >= '0' && c <= '9':
			j := i + 1
			for j < len(s) && s[j] >= '0' && s[j] <= '9' {
				j++
			}
			out = append(out, tok{"int", s[i:j]})
			i = j
		case c == '"':
			j := i + 1
			for j < len(s) && s[j] != '"' {
				j++
			}
			if j >= len(s) {
				return nil, fmt.Errorf("unterminated string in %q", s)
			}
			out = append(out, tok{"str", s[i+1 : j]})
			i = j + 1
		case c == '\'':
			if i+2 < len(s) && s[i+2] == '\'' {
				out = append(out, tok{"int", fmt.Sprintf("%d", s[i+1])})
				i += 3
			} else {
				return nil, fmt.Errorf("bad char literal in %q", s)
			}
		default:
			ops := []string{"<==>", "==>", "::", ":=", "==", "!=", "<=", ">=", "&&", "||", "(", ")", "[", "]", "{", "}", ",", ".", ":", "<", ">", "+", "-", "*", "/", "%", "!", "|"}
			matched := false
			for _, op := range ops {
				if strings.HasPrefix(s[i:], op) {
					out = append(out, tok{"op", op})
					i += len(op)
					matched = true
					break
				}
			}
			if !matched {
				return nil, fmt.Errorf("unexpected character %q in %q", c, s)
			}
		}
	}
	out = append(out, tok{"eof", ""})
	return out, nil
}

type parser struct {
	toks []tok
	p    int
	src  string
}

func (p *parser) peek() tok { return p.toks[p.p] }
func (p *parser) next() tok { t := p.toks[p.p]; p.p++; return t }
func (p *parser) isOp(v string) bool {
	t := p.peek()
	return t.k == "op" && t.v == v
}
func (p *parser) isID(v string) bool {
	t := p.peek()
	return t.k == "id" && t.v == v
}
func (p *parser) expectOp(v string) {
	t := p.next()
	if t.k != "op" || t.v != v {
		panic(fmt.Errorf("expected %q, got %q in %q", v, t.v, p.src))
	}
}

func ParseExpr(s string) (e Expr, err error) {
	toks, err := lex(s)
	if err != nil {
		return nil, err
	}
	p := &parser{toks: toks, src: s}
	defer func() {
		if r := recover(); r != nil {
			if er, ok := r.(error); ok {
				err = er
				return
			}
			panic(r)
		}
	}()
	e = p.expr(0)
	if p.peek().k != "eof" {
		return nil, fmt.Errorf("trailing tokens at %q in %q", p.peek().v, s)
	}
	return e, nil
}

var binPrec = map[string]int{
	"<==>": 1, "==>": 2, "||": 3, "&&": 4,
	"==": 5, "!=": 5, "<": 5, "<=": 5, ">": 5, ">=": 5, "in": 5,
	"+": 6, "-": 6, "*": 7, "/": 7, "%": 7,
}

func (p *parser) expr(minPrec int) Expr {
	lhs := p.unary()
	for {
		t := p.peek()
		op := ""
		if t.k == "op" {
			op = t.v
		} else if t.k == "id" && t.v == "in" {
			op = "in"
		}
		prec, ok := binPrec[op]
		if !ok || prec < minPrec {
			return lhs
		}
		p.next()
		var rhs Expr
		if op == "==>" { // right associative
			rhs = p.expr(prec)
		} else {
			rhs = p.expr(prec + 1)
		}
		lhs = EBinary{op, lhs, rhs}
	}
}

func (p *parser) unary() Expr {
	if p.isOp("!") {
		p.next()
		return EUnary{"!", p.unary()}
	}
	if p.isOp("-") {
		p.next()
		return EUnary{"-", p.unary()}
	}
	if p.isOp("*") {
		p.next()
		return EUnary{"*", p.unary()}
	}
	return p.postfix(p.primary())
}

func (p *parser) postfix(e Expr) Expr {
	for {
		switch {
		case p.isOp("."):
			p.next()
			t := p.next()
			if t.k != "id" {
				panic(fmt.Errorf("expected field name in %q", p.src))
			}
			// qualified call: pkg.Func(...)
			if id, ok := e.(EIdent); ok && p.isOp("(") {
				p.next()
				args := p.args()
				e = ECall{id.Name + "." + t.v, args}
				continue
			}
			if p.isOp("(") {
				// method call on an expression: x.f.M(args) -- pure interface methods only
				p.next()
				e = EMethod{e, t.v, p.args()}
				continue
			}
			e = EField{e, t.v}
		case p.isOp("["):
			p.next()
			var lo Expr
			if !p.isOp(":") {
				lo = p.expr(0)
			}
			if p.isOp(":") {
				p.next()
				var hi Expr
				if !p.isOp("]") {
					hi = p.expr(0)
				}
				p.expectOp("]")
				e = ESlice{e, lo, hi}
			} else {
				p.expectOp("]")
				e = EIndex{e, lo}
			}
		default:
			return e
		}
	}
}

func (p *parser) args() []Expr {
	var args []Expr
	if p.isOp(")") {
		p.next()
		return args
	}
	for {
		args = append(args, p.expr(0))
		if p.isOp(",") {
			p.next()
			continue
		}
		p.expectOp(")")
		return args
	}
}

func (p *parser) primary() Expr {
	t := p.next()
	switch t.k {
	case "int":
		return EInt{t.v}
	case "str":
		return EStr{t.v}
	case "id":
		switch t.v {
		case "true":
			return EBool{true}
		case "false":
			return EBool{false}
		case "nil":
			return ENil{}
		case "setof":
			v := p.next()
			if v.k != "id" {
				panic(fmt.Errorf("bad setof binder in %q", p.src))
			}
			ty := ""
			for !(p.peek().k == "op" && p.peek().v == "::") {
				if p.peek().k == "eof" {
					panic(fmt.Errorf("unterminated setof in %q", p.src))
				}
				ty += p.next().v
			}
			p.expectOp("::")
			return ESetOf{QVar{v.v, ty}, p.expr(0)}
		case "forall", "exists":
			var vars []QVar
			var groups [][]tok
			var cur []tok
			for {
				t2 := p.peek()
				if t2.k == "eof" {
					panic(fmt.Errorf("unterminated binder in %q", p.src))
				}
				if t2.k == "op" && t2.v == "::" {
					groups = append(groups, cur)
					break
				}
				if t2.k == "op" && t2.v == "," {
					groups = append(groups, cur)
					cur = nil
					p.next()
					continue
				}
				cur = append(cur, t2)
				p.next()
			}
			for _, g := range groups {
				if len(g) == 0 || g[0].k != "id" {
					panic(fmt.Errorf("bad binder in %q", p.src))
				}
				ty := ""
				for _, x := range g[1:] {
					ty += x.v
				}
				vars = append(vars, QVar{g[0].v, ty})
			}
			for i := len(vars) - 2; i >= 0; i-- {
				if vars[i].Type == "" {
					vars[i].Type = vars[i+1].Type
				}
			}
			p.expectOp("::")
			var pats [][]Expr
			for p.isOp("{") {
				p.next()
				var grp []Expr
				for {
					grp = append(grp, p.expr(0))
					if p.isOp(",") {
						p.next()
						continue
					}
					break
				}
				pats = append(pats, grp)
				p.expectOp("}")
			}
			body := p.expr(0)
			return EQuant{t.v == "forall", vars, body, pats}
		case "if":
			c := p.expr(0)
			if !p.isID("then") {
				panic(fmt.Errorf("expected then in %q", p.src))
			}
			p.next()
			a := p.expr(0)
			if !p.isID("else") {
				panic(fmt.Errorf("expected else in %q", p.src))
			}
			p.next()
			b := p.expr(0)
			return EIte{c, a, b}
		case "let":
			n := p.next()
			p.expectOp(":=")
			v := p.expr(0)
			if !p.isID("in") {
				panic(fmt.Errorf("expected in (let) in %q", p.src))
			}
			p.next()
			b := p.expr(0)
			return ELet{Name: n.v, V: v, B: b}
		}
		if p.isOp("(") {
			p.next()
			return ECall{t.v, p.args()}
		}
		return EIdent{t.v}
	case "op":
		if t.v == "(" {
			e := p.expr(0)
			p.expectOp(")")
			return e
		}
	}
	panic(fmt.Errorf("unexpected token %q in %q", t.v, p.src))
}

// ---------------------------------------------------------------------------------------
// Contract files

type Clause struct {
	Kind string // requires, ensures, invariant, modifies, decreases
	Text string
	E    Expr
	Pos  string
	Idx  int    // ordinal among clauses of this kind in the contract
	Tag  string // optional "[C05]" label: which property the clause belongs to
	Pkg  string // package the contract file belongs to: type names in the clause resolve there first
}

// label renders the clause ordinal with its tag, e.g. "3[C05]".
func (c *Clause) label() string { return fmt.Sprintf("%d%s", c.Idx, c.Tag) }

type Param struct{ Name, Type string }

type Contract struct {
	Kind     string // func, trusted, loop, pred, fun, lemma, axiom, ghostvar, ghostfield, chan, guarded
	Name     string // function name as written: (*T).m, pkg.f, f$1 ; loop: f#k
	Pkg      string // package path the file belongs to ("" for /verif/specs files)
	Params   []Param
	Results  []Param
	Requires []*Clause
	Ensures  []*Clause
	Invs     []*Clause
	Records  []*Clause // `records #g := e`: ghost bookkeeping applied at call sites only
	Sets     []*Clause // ghost-after hooks: `set x.#f := e`
	Modifies []string
	Inline   bool // callers use the body, not the contract (the contract is only checked against the body)
	HasMod   bool
	Body     Expr // pred/fun/axiom
	BodyText string
	Sort     string // fun result sort, ghost var sort
	NoPanic  bool
	MayPanic bool // trusted external function that can panic on some inputs: callers must recover
	Pure     bool
	Opaque   bool
	File     string
	Line     int
	Induct   string
	Caller   string   // callsite contracts: the calling function
	Reveals  []string // opaque spec functions whose definition is available in this unit
	As       string   // implements: the interface method whose contract the function must satisfy
	Notes    []string
}

var headRe = regexp.MustCompile(`^(func|trusted func|loop|pred|fun|lemma|axiom|ghost var|ghost field|chan|guarded|sort|assume-call|callsite|implements|immutable|ghost-after|global-const)\s+(.*)$`)
var clauseRe = regexp.MustCompile(`^(requires|ensures|invariant|modifies|records|set|reveals|nopanic|maypanic|pure|opaque|inline|induction|note)\b\s*(.*)$`)

// splitParams splits "a int, b []T" at top-level commas into name/type pairs.
func splitParams(s string) []Param {
	s = strings.TrimSpace(s)
	if s == "" {
		return nil
	}
	var parts []string
	depth := 0
	start := 0
	for i, c := range s {
		switch c {
		case '(', '[', '{':
			depth++
		case ')', ']', '}':
			depth--
		case ',':
			if depth == 0 {
				parts = append(parts, s[start:i])
				start = i + 1
			}
		}
	}
	parts = append(parts, s[start:])
	var out []Param
	for _, p := range parts {
		p = strings.TrimSpace(p)
		f := strings.SplitN(p, " ", 2)
		pr := Param{Name: f[0]}
		if len(f) > 1 {
			pr.Type = strings.TrimSpace(f[1])
		}
		out = append(out, pr)
	}
	// "a, b int" style: propagate types backwards
	for i := len(out) - 2; i >= 0; i-- {
		if out[i].Type == "" {
			out[i].Type = out[i+1].Type
		}
	}
	return out
}

// matchParen returns the index of the parenthesis closing the one at s[i].
func matchParen(s string, i int) int {
	depth := 0
	for j := i; j < len(s); j++ {
		switch s[j] {
		case '(':
			depth++
		case ')':
			depth--
			if depth == 0 {
				return j
			}
		}
	}
	return -1
}

// parseFuncHeader parses "NAME(params) (results)" where NAME may start with "(*T)." .
func parseFuncHeader(rest string) (name string, params, results []Param, err error) {
	i := 0
	if strings.HasPrefix(rest, "(") {
		j := matchParen(rest, 0)
		if j < 0 {
			return "", nil, nil, fmt.Errorf("bad header %q", rest)
		}
		i = j + 1
	}
	k := strings.Index(rest[i:], "(")
	if k < 0 {
		return strings.TrimSpace(rest), nil, nil, nil
	}
	k += i
	name = strings.TrimSpace(rest[:k])
	j := matchParen(rest, k)
	if j < 0 {
		return "", nil, nil, fmt.Errorf("bad header %q", rest)
	}
	params = splitParams(rest[k+1 : j])
	tail := strings.TrimSpace(rest[j+1:])
	if strings.HasPrefix(tail, "(") {
		e := matchParen(tail, 0)
		results = splitParams(tail[1:e])
	} else if tail != "" {
		results = []Param{{Name: "result", Type: tail}}
	}
	return name, params, results, nil
}

// ParseContractFile reads `//@` lines. In /repo files everything after the package clause
// must be a comment (checked by the caller).
func ParseContractFile(path, pkgPath string) ([]*Contract, error) {
	data, err := os.ReadFile(path)
	if err != nil {
		return nil, err
	}
	var out []*Contract
	var cur *Contract
	var curClause *Clause
	var pendingBody *strings.Builder
	flushBody := func() error {
		if cur != nil && pendingBody != nil {
			txt := strings.TrimSpace(pendingBody.String())
			cur.BodyText = txt
			e, err := ParseExpr(txt)
			if err != nil {
				return fmt.Errorf("%s:%d: %v", path, cur.Line, err)
			}
			cur.Body = e
			pendingBody = nil
		}
		return nil
	}
	flushClause := func() error {
		if curClause != nil {
			if t := strings.TrimSpace(curClause.Text); strings.HasPrefix(t, "[") {
				if i := strings.Index(t, "]"); i > 0 {
					curClause.Tag = strings.ReplaceAll(t[:i+1], " ", "")
					curClause.Text = strings.TrimSpace(t[i+1:])
				}
			}
			e, err := ParseExpr(curClause.Text)
			if err != nil {
				return fmt.Errorf("%s: %v", curClause.Pos, err)
			}
			curClause.E = e
			curClause = nil
		}
		return nil
	}
	lines := strings.Split(string(data), "\n")
	for ln, raw := range lines {
		line := strings.TrimSpace(raw)
		var body string
		switch {
		case strings.HasPrefix(line, "//@"):
			body = strings.TrimSpace(line[3:])
		case strings.HasSuffix(path, ".spec"):
			if strings.HasPrefix(line, "//") || strings.HasPrefix(line, ";") {
				continue
			}
			body = line
		default:
			continue
		}
		if body == "" || strings.HasPrefix(body, "//") {
			continue
		}
		if i := strings.Index(body, " // "); i >= 0 {
			body = strings.TrimSpace(body[:i])
		}
		if m := headRe.FindStringSubmatch(body); m != nil {
			if err := flushClause(); err != nil {
				return nil, err
			}
			if err := flushBody(); err != nil {
				return nil, err
			}
			cur = &Contract{Kind: m[1], Pkg: pkgPath, File: path, Line: ln + 1}
			out = append(out, cur)
			rest := m[2]
			switch m[1] {
			case "func", "trusted func", "lemma", "assume-call":
				if m[1] == "trusted func" {
					cur.Kind = "trusted"
				}
				name, ps, rs, err := parseFuncHeader(rest)
				if err != nil {
					return nil, fmt.Errorf("%s:%d: %v", path, ln+1, err)
				}
				cur.Name, cur.Params, cur.Results = name, ps, rs
			case "loop":
				cur.Name = strings.TrimSpace(rest)
			case "pred", "fun":
				i := strings.Index(rest, ":=")
				head := rest
				bodyTxt := ""
				if i >= 0 {
					head = rest[:i]
					bodyTxt = rest[i+2:]
				}
				name, ps, rs, err := parseFuncHeader(strings.TrimSpace(head))
				if err != nil {
					return nil, fmt.Errorf("%s:%d: %v", path, ln+1, err)
				}
				cur.Name, cur.Params = name, ps
				cur.Sort = "Bool"
				if m[1] == "fun" {
					if len(rs) != 1 {
						return nil, fmt.Errorf("%s:%d: fun needs a result sort", path, ln+1)
					}
					cur.Sort = rs[0].Type
					if rs[0].Name != "result" {
						cur.Sort = strings.TrimSpace(rs[0].Name + " " + rs[0].Type)
					}
				}
				pendingBody = &strings.Builder{}
				pendingBody.WriteString(bodyTxt)
				if i < 0 {
					pendingBody = nil // uninterpreted
				}
			case "axiom":
				i := strings.Index(rest, ":")
				cur.Name = strings.TrimSpace(rest[:i])
				pendingBody = &strings.Builder{}
				pendingBody.WriteString(rest[i+1:])
			case "ghost var", "ghost field", "sort":
				cur.Kind = strings.ReplaceAll(m[1], " ", "")
				f := strings.Fields(rest)
				cur.Name = f[0]
				if len(f) > 1 {
					cur.Sort = strings.Join(f[1:], " ")
				}
			case "chan", "guarded", "immutable", "ghost-after", "global-const":
				cur.Name = rest
			case "implements":
				// implements FUNC as IFACEMETHOD
				i := strings.Index(rest, " as ")
				if i < 0 {
					return nil, fmt.Errorf("%s:%d: implements needs FUNC as (Iface).Method", path, ln+1)
				}
				cur.Name = strings.TrimSpace(rest[:i])
				cur.As = strings.TrimSpace(rest[i+4:])
			case "callsite":
				// callsite CALLER -> CALLEE(params)
				i := strings.Index(rest, "->")
				if i < 0 {
					return nil, fmt.Errorf("%s:%d: callsite needs CALLER -> CALLEE", path, ln+1)
				}
				cur.Caller = strings.TrimSpace(rest[:i])
				name, ps, rs, err := parseFuncHeader(strings.TrimSpace(rest[i+2:]))
				if err != nil {
					return nil, fmt.Errorf("%s:%d: %v", path, ln+1, err)
				}
				cur.Name, cur.Params, cur.Results = name, ps, rs
			}
			continue
		}
		if cur == nil {
			return nil, fmt.Errorf("%s:%d: clause outside a contract: %q", path, ln+1, body)
		}
		if m := clauseRe.FindStringSubmatch(body); m != nil {
			if err := flushClause(); err != nil {
				return nil, err
			}
			if err := flushBody(); err != nil {
				return nil, err
			}
			pos := fmt.Sprintf("%s:%d", path, ln+1)
			switch m[1] {
			case "requires":
				curClause = &Clause{Kind: "requires", Text: m[2], Pos: pos, Pkg: pkgPath, Idx: len(cur.Requires) + 1}
				cur.Requires = append(cur.Requires, curClause)
			case "ensures":
				curClause = &Clause{Kind: "ensures", Text: m[2], Pos: pos, Pkg: pkgPath, Idx: len(cur.Ensures) + 1}
				cur.Ensures = append(cur.Ensures, curClause)
			case "invariant":
				curClause = &Clause{Kind: "invariant", Text: m[2], Pos: pos, Pkg: pkgPath, Idx: len(cur.Invs) + 1}
				cur.Invs = append(cur.Invs, curClause)
			case "set":
				i := strings.Index(m[2], ":=")
				if i < 0 {
					return nil, fmt.Errorf("%s: set needs `lhs := expr`", pos)
				}
				curClause = &Clause{Kind: "set:" + strings.TrimSpace(m[2][:i]), Text: m[2][i+2:], Pos: pos, Pkg: pkgPath, Idx: len(cur.Sets) + 1}
				cur.Sets = append(cur.Sets, curClause)
			case "records":
				i := strings.Index(m[2], ":=")
				if i < 0 {
					return nil, fmt.Errorf("%s: records needs `#g := expr`", pos)
				}
				curClause = &Clause{Kind: "records:" + strings.TrimSpace(m[2][:i]), Text: m[2][i+2:], Pos: pos, Pkg: pkgPath, Idx: len(cur.Records) + 1}
				cur.Records = append(cur.Records, curClause)
			case "modifies":
				cur.HasMod = true
				for _, x := range splitTop(m[2]) {
					x = strings.TrimSpace(x)
					if x != "" && x != "nothing" {
						cur.Modifies = append(cur.Modifies, x)
					}
				}
			case "reveals":
				for _, x := range strings.Split(m[2], ",") {
					if x = strings.TrimSpace(x); x != "" {
						cur.Reveals = append(cur.Reveals, x)
					}
				}
			case "nopanic":
				cur.NoPanic = true
			case "maypanic":
				cur.MayPanic = true
			case "pure":
				cur.Pure = true
			case "inline":
				cur.Inline = true
			case "opaque":
				cur.Opaque = true
			case "induction":
				cur.Induct = m[2]
			case "note":
				cur.Notes = append(cur.Notes, m[2])
			}
			continue
		}
		// continuation line
		if curClause != nil {
			curClause.Text += " " + body
		} else if pendingBody != nil {
			pendingBody.WriteString(" " + body)
		} else {
			return nil, fmt.Errorf("%s:%d: cannot attach line %q", path, ln+1, body)
		}
	}
	if err := flushClause(); err != nil {
		return nil, err
	}
	if err := flushBody(); err != nil {
		return nil, err
	}
	return out, nil
}

// splitTop splits at commas that are not nested in parentheses or brackets.
func splitTop(s string) []string {
	var parts []string
	depth, start := 0, 0
	for i, c := range s {
		switch c {
		case '(', '[', '{':
			depth++
		case ')', ']', '}':
			depth--
		case ',':
			if depth == 0 {
				parts = append(parts, s[start:i])
				start = i + 1
			}
		}
	}
	return append(parts, s[start:])
}
