package main

import (
	"context"
	"encoding/hex"
	"fmt"
	"go/types"
	"os"
	"os/exec"
	"path/filepath"
	"regexp"
	"strconv"
	"strings"
	"time"

	"golang.org/x/tools/go/ssa"
)

// Postconditions on the results of the real function.
//
// A model of a failed postcondition is a model of the abstraction. To turn it into a statement about the real code, the
// real function is run on the model's arguments, its real results are read back, and the *clause* is evaluated on
// (arguments, real results) by the solver: a unit is built that has the parameters, the precondition and the definitions of
// the contract, but no body -- the exit state and the results are arbitrary -- the arguments and the observable part of the
// results (integers, booleans, strings, contents and nil-ness of byte slices, nil-ness of pointers and errors) are pinned to
// the concrete values, and two queries are asked:
//   (1) assumptions /\ pins /\ not clause    must be sat   (the clause can be false on these values, and the pins are consistent)
//   (2) assumptions /\ pins /\ clause        must be unsat (it cannot be true, whatever the unpinned rest of the state is)
// Only if both hold is the input reported as a failing input: the real function returned a result for which the clause is
// false in every state. Whatever the clause says about things that are not pinned (ghost state, other heap objects,
// aliasing) leaves (2) satisfiable, and nothing is claimed.

type concVal struct {
	class string // int bool string bytes nilable other
	s     string // int / bool literal
	b     []byte
	isNil bool
}

var ensuresNameRe = regexp.MustCompile(`/ensures#([^.@]+)(?:\.\d+)?@ret`)

func resultClass(t types.Type) string {
	switch c := replayClass(t); c {
	case "int", "bool", "string", "bytes":
		return c
	}
	switch t.Underlying().(type) {
	case *types.Pointer, *types.Interface, *types.Map, *types.Slice, *types.Signature, *types.Chan:
		return "nilable"
	}
	return "other"
}

// resultPrinter: Go statements that print the results r0..rn of the real call in a form parseRealResults reads back.
func resultPrinter(fn *ssa.Function) (lhs string, stmts []string) {
	rs := fn.Signature.Results()
	if rs.Len() == 0 {
		return "", nil
	}
	var names []string
	for i := 0; i < rs.Len(); i++ {
		n := fmt.Sprintf("wvr%d", i)
		names = append(names, n)
		switch resultClass(rs.At(i).Type()) {
		case "int":
			stmts = append(stmts, fmt.Sprintf("fmt.Printf(\"WV-REPLAY-RESULT %d int %%d\\n\", %s)", i, n))
		case "bool":
			stmts = append(stmts, fmt.Sprintf("fmt.Printf(\"WV-REPLAY-RESULT %d bool %%t\\n\", %s)", i, n))
		case "string":
			stmts = append(stmts, fmt.Sprintf("fmt.Printf(\"WV-REPLAY-RESULT %d string x%%x\\n\", []byte(string(%s)))", i, n))
		case "bytes":
			stmts = append(stmts, fmt.Sprintf("fmt.Printf(\"WV-REPLAY-RESULT %d bytes %%t x%%x\\n\", %s == nil, []byte(%s))", i, n, n))
		case "nilable":
			stmts = append(stmts, fmt.Sprintf("fmt.Printf(\"WV-REPLAY-RESULT %d nilable %%t\\n\", %s == nil)", i, n))
		default:
			stmts = append(stmts, fmt.Sprintf("_ = %s", n))
		}
	}
	return strings.Join(names, ", ") + " := ", stmts
}

var realResultRe = regexp.MustCompile(`(?m)^WV-REPLAY-RESULT (\d+) (\w+) (.*)$`)

func parseRealResults(out string, n int) []concVal {
	vals := make([]concVal, n)
	for i := range vals {
		vals[i].class = "other"
	}
	for _, m := range realResultRe.FindAllStringSubmatch(out, -1) {
		i, _ := strconv.Atoi(m[1])
		if i < 0 || i >= n {
			continue
		}
		f := strings.Fields(m[3])
		switch m[2] {
		case "int", "bool":
			if len(f) == 1 {
				vals[i] = concVal{class: m[2], s: f[0]}
			}
		case "string":
			if len(f) == 1 {
				b, err := hex.DecodeString(strings.TrimPrefix(f[0], "x"))
				if err == nil {
					vals[i] = concVal{class: "string", b: b}
				}
			}
		case "bytes":
			if len(f) == 2 {
				b, err := hex.DecodeString(strings.TrimPrefix(f[1], "x"))
				if err == nil {
					vals[i] = concVal{class: "bytes", b: b, isNil: f[0] == "true"}
				}
			}
		case "nilable":
			if len(f) == 1 {
				vals[i] = concVal{class: "nilable", isNil: f[0] == "true"}
			}
		}
	}
	return vals
}

func resultLines(out string) []string {
	var ls []string
	for _, m := range realResultRe.FindAllString(out, -1) {
		ls = append(ls, strings.TrimSpace(m))
	}
	return ls
}

const evalRealMaxLen = 512

// evalEnsuresOnReal decides the clause with the given label on concrete arguments and concrete results.
// Verdicts: "violated" (definitely false), "holds" (cannot be false), "indeterminate" (depends on state that is not pinned,
// or the solver did not decide), "unsupported".
func (e *Engine) evalEnsuresOnReal(fn *ssa.Function, label string, ins, outs []concVal, prelude string, timeoutS int, log *strings.Builder) (verdict string) {
	verdict = "unsupported"
	ct := e.contractFor(fn)
	if ct == nil {
		return
	}
	var clause *Clause
	for _, en := range ct.Ensures {
		if en.label() == label {
			clause = en
		}
	}
	if clause == nil {
		return
	}
	un := e.newUnit(fn, unitName(fn)+"!eval")
	defer func() {
		if r := recover(); r != nil {
			if u, ok := r.(unsupported); ok {
				fmt.Fprintf(log, "evaluation of the clause on the real results: outside the supported subset: %s\n", u.msg)
				verdict = "unsupported"
				return
			}
			panic(r)
		}
	}()
	for _, r := range ct.Reveals {
		un.reveals[r] = true
	}
	f := &Frame{un: un, fn: fn, vals: map[ssa.Value]Val{}, contract: ct}
	f.clausePkg = ct.Pkg
	st := State{R: tTrue, H: map[string]Term{}}
	next0 := un.heapInit("$next", SInt)
	un.assume(&st, Ge(next0, IntLit(0)))
	env := map[string]Val{}
	for _, p := range fn.Params {
		v := un.fresh("p_"+p.Name(), un.u.SortOf(p.Type()))
		f.vals[p] = Val{T: v, Go: p.Type()}
		un.assume(&st, un.typeFacts(p.Type(), v, &st, 0))
		env[p.Name()] = f.vals[p]
	}
	f.emitAxioms()
	f.paramEnv = env
	un.lockDefault = !mentionsLocks(ct)
	f.entry = st
	fullEnv := f.postEnv(&st)
	for _, rq := range ct.Requires {
		un.assume(&st, f.evalAssume(rq, fullEnv, &st, &st))
	}
	// pins of the arguments (entry state)
	byteHeap := un.elemHeap(types.Typ[types.Uint8])
	byteSort := ArrSort(SInt, ArrSort(SInt, SInt))
	pin := func(v Term, c concVal, s *State) {
		switch c.class {
		case "int":
			un.assume(s, Eq(v, IntLitS(c.s)))
		case "bool":
			un.assume(s, Eq(v, BoolLit(c.s == "true")))
		case "string":
			un.assume(s, Eq(mk(SInt, "strlen", v), IntLit(int64(len(c.b)))))
			for i, b := range c.b {
				un.assume(s, Eq(mk(SInt, "strat", v, IntLit(int64(i))), IntLit(int64(b))))
			}
		case "bytes":
			un.assume(s, Eq(SLen(v), IntLit(int64(len(c.b)))))
			if c.isNil {
				un.assume(s, Eq(SBase(v), IntLit(0)))
			} else {
				un.assume(s, Neq(SBase(v), IntLit(0)))
			}
			if len(c.b) > 0 {
				h := un.H(s, byteHeap, byteSort)
				for i, b := range c.b {
					un.assume(s, Eq(Select(Select(h, SBase(v)), Add(SOff(v), IntLit(int64(i)))), IntLit(int64(b))))
				}
			}
		case "nilable":
			var isnil Term
			switch v.Sort {
			case SIface:
				isnil = Eq(v, nilIface)
			case SSlice:
				isnil = Eq(SBase(v), IntLit(0))
			case SInt:
				isnil = Eq(v, IntLit(0))
			default:
				return
			}
			if c.isNil {
				un.assume(s, isnil)
			} else {
				un.assume(s, Not(isnil))
			}
		}
	}
	for i, p := range fn.Params {
		if i < len(ins) {
			if len(ins[i].b) > evalRealMaxLen {
				return
			}
			pin(f.vals[p].T, ins[i], &st)
		}
	}
	f.entry = st.clone()
	// exit state: arbitrary; results: arbitrary values of their types, observable part pinned
	un.havocAll(&st)
	rs := fn.Signature.Results()
	var rvals []Val
	for i := 0; i < rs.Len(); i++ {
		t := rs.At(i).Type()
		v := un.fresh(fmt.Sprintf("r%d", i), un.u.SortOf(t))
		un.assume(&st, un.typeFacts(t, v, &st, 0))
		rvals = append(rvals, Val{T: v, Go: t})
	}
	for i := range rvals {
		if i < len(outs) {
			if len(outs[i].b) > evalRealMaxLen {
				return
			}
			pin(rvals[i].T, outs[i], &st)
		}
	}
	penv := f.postEnv(&st)
	for j, o := range rvals {
		if j < len(ct.Results) {
			penv[ct.Results[j].Name] = o
		}
	}
	if len(rvals) == 1 {
		penv["result"] = rvals[0]
	}
	goal := f.evalClause(clause, penv, &st, &f.entry)
	render := func(g Term) string {
		var b strings.Builder
		b.WriteString(prelude)
		for _, d := range un.decls {
			b.WriteString(d)
			b.WriteByte('\n')
		}
		fmt.Fprintf(&b, "(assert %s)\n(assert %s)\n(check-sat)\n", st.R.S, g.S)
		return pruneQuery(b.String())
	}
	dir, err := os.MkdirTemp("", "wv_evalreal_")
	if err != nil {
		return
	}
	defer os.RemoveAll(dir)
	run := func(name string, g Term) string {
		file := filepath.Join(dir, name+".smt2")
		os.WriteFile(file, []byte(render(g)), 0o644)
		ctx, cancel := context.WithTimeout(context.Background(), time.Duration(timeoutS+5)*time.Second)
		defer cancel()
		out, _ := exec.CommandContext(ctx, "z3-new", fmt.Sprintf("-T:%d", timeoutS), file).CombinedOutput()
		s := strings.TrimSpace(string(out))
		if i := strings.IndexByte(s, '\n'); i >= 0 {
			s = s[:i]
		}
		return s
	}
	a := run("notclause", Not(goal))
	b := run("clause", goal)
	c := "-"
	if b == "unsat" && a != "unsat" {
		// the pins themselves must not be contradictory (same standard as the vacuity checks of every unit: `false` must not be provable)
		c2 := run("pinsonly", tTrue)
		if c2 == "unsat" {
			c = "CONTRADICTORY"
		} else {
			c = "consistent as far as the solver can tell (" + c2 + ")"
		}
	}
	fmt.Fprintf(log, "evaluation of clause ensures#%s on the real results (solver as evaluator, body-less unit, arguments and observable results pinned):\n  pins /\\ not clause: %s\n  pins /\\ clause: %s\n  pins alone: %s\n", label, a, b, c)
	switch {
	case b == "unsat" && a != "unsat" && !strings.HasPrefix(c, "CONTRA"):
		return "violated"
	case a == "unsat" && b != "unsat":
		return "holds"
	}
	return "indeterminate"
}
