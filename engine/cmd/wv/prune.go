package main

import (
	"os"
	"strings"
)

// Relevance filter for queries.
//
// A query is the prelude of the whole check (every struct sort, string literal, spec function and axiom any unit of the
// property needed) followed by the declarations of one unit and one goal. Most of that text has nothing to do with the goal,
// and -- worse -- it changes whenever *another* unit of the same check changes, which made proofs of untouched functions
// depend on edits elsewhere (a brittle proof is a false alarm waiting to happen). pruneQuery keeps exactly the commands
// reachable from the goal through shared symbols:
//
//   - the trailing assertions (path condition, extra case-split facts, negated goal) are the roots;
//   - a declaration or definition is kept iff its symbol is reached; what it mentions is reached in turn;
//   - an assertion is kept iff it mentions a reached symbol other than the base vocabulary (strings, slices, interfaces),
//     or mentions nothing but base vocabulary; what it mentions is reached in turn.
//
// Dropping hypotheses can only lose proofs, never create one, so the filter needs no trust.

var pruneBase = map[string]bool{
	"strlen": true, "strat": true, "str_empty": true, "strdiff": true, "strcmp": true, "ix": true,
	"sbase": true, "soff": true, "slen": true, "scap": true, "mk-slice": true, "Slice": true,
	"itag": true, "ival": true, "mk-iface": true, "Iface": true, "Str": true,
}

type pruneCmd struct {
	text   string
	assert bool
	decl   bool
	defs   []string
	toks   []string // every symbol-like token (filtered against the declared set later)
	keep   bool
}

func smtTokens(s string) []string {
	var out []string
	i := 0
	for i < len(s) {
		c := s[i]
		if c == '(' || c == ')' || c == ' ' || c == '\t' {
			i++
			continue
		}
		j := i
		for j < len(s) && s[j] != '(' && s[j] != ')' && s[j] != ' ' && s[j] != '\t' {
			j++
		}
		out = append(out, s[i:j])
		i = j
	}
	return out
}

// datatypeDefs: (declare-datatypes ((S 0)) (((ctor (acc sort) ...)))) -> S, ctor, accessors
func datatypeDefs(line string) []string {
	toks := smtTokens(line)
	if len(toks) < 4 {
		return nil
	}
	defs := []string{toks[1], toks[3]}
	// accessors: the token right after each "(" that follows the constructor at nesting depth 5
	depth := 0
	for i := 0; i < len(line); i++ {
		switch line[i] {
		case '(':
			depth++
			if depth == 5 {
				j := i + 1
				for j < len(line) && line[j] != ' ' && line[j] != ')' {
					j++
				}
				defs = append(defs, line[i+1:j])
			}
		case ')':
			depth--
		}
	}
	return defs
}

func pruneQuery(q string) string {
	if os.Getenv("WV_NOPRUNE") != "" {
		return q
	}
	lines := strings.Split(q, "\n")
	cmds := make([]*pruneCmd, 0, len(lines))
	declared := map[string]bool{}
	for _, l := range lines {
		if l == "" {
			continue
		}
		c := &pruneCmd{text: l}
		switch {
		case strings.HasPrefix(l, "(declare-datatypes"):
			c.decl = true
			c.defs = datatypeDefs(l)
		case strings.HasPrefix(l, "(declare-sort"), strings.HasPrefix(l, "(declare-fun"), strings.HasPrefix(l, "(declare-const"), strings.HasPrefix(l, "(define-fun"):
			c.decl = true
			t := smtTokens(l)
			if len(t) > 1 {
				c.defs = []string{t[1]}
			}
		case strings.HasPrefix(l, "(assert"):
			c.assert = true
		default:
			c.keep = true // set-logic, set-option, check-sat, get-value, ...
		}
		c.toks = smtTokens(l)
		for _, d := range c.defs {
			declared[d] = true
		}
		cmds = append(cmds, c)
	}
	// roots: the trailing run of assertions before the first non-assert command at the end (check-sat / get-value)
	end := len(cmds)
	for end > 0 && !cmds[end-1].assert && !cmds[end-1].decl {
		end--
	}
	reached := map[string]bool{}
	var work []string
	reach := func(c *pruneCmd) {
		for _, t := range c.toks {
			if declared[t] && !reached[t] {
				reached[t] = true
				work = append(work, t)
			}
		}
	}
	i := end
	for i > 0 && cmds[i-1].assert {
		i--
		cmds[i].keep = true
		reach(cmds[i])
	}
	// index: symbol -> commands mentioning it
	mention := map[string][]*pruneCmd{}
	for _, c := range cmds {
		if c.keep {
			continue
		}
		seen := map[string]bool{}
		onlyBase := true
		for _, t := range c.toks {
			if !declared[t] || seen[t] {
				continue
			}
			seen[t] = true
			if !pruneBase[t] {
				onlyBase = false
			}
			mention[t] = append(mention[t], c)
		}
		if c.assert && onlyBase {
			c.keep = true
			reach(c)
		}
	}
	for len(work) > 0 {
		s := work[len(work)-1]
		work = work[:len(work)-1]
		for _, c := range mention[s] {
			if c.keep {
				continue
			}
			if c.decl {
				def := false
				for _, d := range c.defs {
					if d == s {
						def = true
					}
				}
				if !def {
					continue
				}
			} else if pruneBase[s] || isDistinct(c.text) {
				continue
			}
			c.keep = true
			reach(c)
		}
	}
	var b strings.Builder
	for _, c := range cmds {
		if !c.keep {
			if c.assert && isDistinct(c.text) {
				// pairwise-distinct string literals: restricted to the literals that are still there
				var left []string
				for _, t := range c.toks[2:] {
					if reached[t] {
						left = append(left, t)
					}
				}
				if len(left) > 1 {
					b.WriteString("(assert (distinct " + strings.Join(left, " ") + "))\n")
				}
			}
			continue
		}
		b.WriteString(c.text)
		b.WriteByte('\n')
	}
	return b.String()
}

func isDistinct(l string) bool { return strings.HasPrefix(l, "(assert (distinct ") }
