package main

import (
	"fmt"
	"go/ast"
	"go/constant"
	"go/token"
	"go/types"
	"os"
	"strings"

	"golang.org/x/tools/go/ssa"
)

// Frame is the activation of one function being translated (top level or inlined).
type Frame struct {
	un        *Unit
	fn        *ssa.Function
	vals      map[ssa.Value]Val
	parent    *Frame
	depth     int
	pure      bool // spec-level evaluation of a closure: no obligations
	contract  *Contract
	entry     State
	defers    []deferred
	rets      []retInfo
	loops     map[*ssa.BasicBlock]*loopInfo
	clausePkg string // package of the contract clause being evaluated
	dupQuant  int    // >0: assumed quantified facts are emitted in both index forms
	noShift   bool
	ranges    map[ssa.Value]string // Range instr -> seen-set state key
	paramEnv  map[string]Val
	curBlock  *ssa.BasicBlock
	pkgPath   string // for contract evaluation without a function
}

type deferred struct {
	call *ssa.CallCommon
	args []Val
	fnv  Val
	pos  token.Pos
	key  string // state flag: this defer statement was executed on the current path
}

type retInfo struct {
	st   State
	vals []Val
	pos  string
}

type loopInfo struct {
	header   *ssa.BasicBlock
	ordinal  int
	contract *Contract
	body     map[*ssa.BasicBlock]bool
	entrySt  State // state at loop entry (before havoc)
}

type unsupported struct{ msg string }

func (f *Frame) fail(format string, args ...interface{}) {
	panic(unsupported{fmt.Sprintf(format, args...)})
}

func (f *Frame) val(v ssa.Value, st *State) Val {
	if x, ok := f.vals[v]; ok {
		return x
	}
	switch c := v.(type) {
	case *ssa.Const:
		return f.constVal(c)
	case *ssa.Global:
		g := f.un.eng.globalRef(c)
		return Val{T: g, Go: c.Type()}
	case *ssa.Function:
		return Val{Clo: &Closure{Fn: c}, T: f.un.eng.funcRef(c), Go: c.Type()}
	case *ssa.Builtin:
		return Val{Go: c.Type()}
	}
	f.fail("no value for %s (%T) in %s", v.Name(), v, f.fn.Name())
	return Val{}
}

func (f *Frame) term(v ssa.Value, st *State) Term {
	x := f.val(v, st)
	if x.LV != nil && x.T.S == "" {
		f.fail("interior pointer %s used as a first-class value in %s", v.Name(), f.fn.Name())
	}
	if x.T.S == "" {
		f.fail("value %s (%T) has no term in %s", v.Name(), v, f.fn.Name())
	}
	return x.T
}

func (f *Frame) constVal(c *ssa.Const) Val {
	u := f.un.u
	t := c.Type()
	if c.Value == nil {
		return Val{T: u.Zero(u.SortOf(t)), Go: t}
	}
	switch c.Value.Kind() {
	case constant.Bool:
		return Val{T: BoolLit(constant.BoolVal(c.Value)), Go: t}
	case constant.Int:
		return Val{T: IntLitS(c.Value.ExactString()), Go: t}
	case constant.String:
		return Val{T: u.StrLit(constant.StringVal(c.Value)), Go: t}
	case constant.Float:
		if i, ok := constant.Int64Val(constant.ToInt(c.Value)); ok {
			return Val{T: IntLit(i), Go: t}
		}
		return Val{T: f.un.fresh("fconst", SInt), Go: t}
	}
	f.fail("constant kind %v", c.Value.Kind())
	return Val{}
}

// addr resolves an address-typed ssa value to a location.
func (f *Frame) addr(v ssa.Value, st *State) *LVal {
	x := f.val(v, st)
	if x.LV != nil {
		return x.LV
	}
	return f.un.lvOfPointer(x.T, v.Type())
}

// ---------------------------------------------------------------------------------------

func isBackEdge(from, to *ssa.BasicBlock) bool { return to.Dominates(from) }

func rpo(fn *ssa.Function) []*ssa.BasicBlock {
	seen := map[*ssa.BasicBlock]bool{}
	var post []*ssa.BasicBlock
	var dfs func(b *ssa.BasicBlock)
	dfs = func(b *ssa.BasicBlock) {
		seen[b] = true
		for _, s := range b.Succs {
			if !seen[s] && !isBackEdge(b, s) {
				dfs(s)
			}
		}
		post = append(post, b)
	}
	dfs(fn.Blocks[0])
	for i, j := 0, len(post)-1; i < j; i, j = i+1, j-1 {
		post[i], post[j] = post[j], post[i]
	}
	return post
}

func loopBody(h *ssa.BasicBlock) map[*ssa.BasicBlock]bool {
	body := map[*ssa.BasicBlock]bool{h: true}
	var stack []*ssa.BasicBlock
	for _, p := range h.Preds {
		if isBackEdge(p, h) && !body[p] {
			body[p] = true
			stack = append(stack, p)
		}
	}
	for len(stack) > 0 {
		b := stack[len(stack)-1]
		stack = stack[:len(stack)-1]
		for _, p := range b.Preds {
			if !body[p] {
				body[p] = true
				stack = append(stack, p)
			}
		}
	}
	return body
}

func loopHeaders(fn *ssa.Function) []*ssa.BasicBlock {
	var hs []*ssa.BasicBlock
	for _, b := range fn.Blocks {
		for _, p := range b.Preds {
			if isBackEdge(p, b) {
				hs = append(hs, b)
				break
			}
		}
	}
	return hs
}

type edgeKey struct{ from, to int }

// body translates the blocks of f.fn starting from st; returns are collected in f.rets.
func (f *Frame) body(st State) {
	fn := f.fn
	un := f.un
	if len(fn.Blocks) == 0 {
		f.fail("function %s has no body", fn.String())
	}
	f.loops = map[*ssa.BasicBlock]*loopInfo{}
	// contract drift: the contract file states invariants for more loops than the function has (code was moved out of it)
	if n := len(loopHeaders(fn)); un.eng.loopContract(fn, n+1) != nil {
		f.fail("contract drift: invariants are declared for loop #%d of %s, which now has %d loop(s)", n+1, fn.String(), n)
	}
	for i, h := range loopHeaders(fn) {
		li := &loopInfo{header: h, ordinal: i + 1, body: loopBody(h)}
		if f.parent == nil || true {
			li.contract = un.eng.loopContract(fn, i+1)
		}
		f.loops[h] = li
	}
	edges := map[edgeKey]State{}
	order := rpo(fn)
	for _, b := range order {
		var cur State
		var incoming []State
		var inPreds []*ssa.BasicBlock
		if b.Index == 0 {
			cur = st.clone()
		} else {
			for _, p := range b.Preds {
				if isBackEdge(p, b) {
					continue
				}
				if es, ok := edges[edgeKey{p.Index, b.Index}]; ok {
					incoming = append(incoming, es)
					inPreds = append(inPreds, p)
				}
			}
			if len(incoming) == 0 {
				continue // unreachable (e.g. recover block)
			}
			// name each edge predicate
			for i := range incoming {
				incoming[i].R = un.define("E", incoming[i].R)
			}
			cur = un.mergeStates(incoming)
		}
		// phis
		li := f.loops[b]
		for _, ins := range b.Instrs {
			phi, ok := ins.(*ssa.Phi)
			if !ok {
				break
			}
			var vals []Term
			simple := true
			for i, p := range inPreds {
				_ = i
				ev := phi.Edges[predIndex(b, p)]
				x := f.val(ev, &cur)
				if x.T.S == "" {
					simple = false
					break
				}
				vals = append(vals, x.T)
			}
			if !simple {
				f.fail("phi %s over non-first-class values", phi.Name())
			}
			f.vals[phi] = Val{T: un.define(phi.Name(), un.iteChain(incoming, vals)), Go: phi.Type()}
		}
		if li != nil {
			f.loopCut(li, &cur)
		}
		ended := false
		f.curBlock = b
		for _, ins := range b.Instrs {
			if _, ok := ins.(*ssa.Phi); ok {
				continue
			}
			if f.instr(ins, &cur) {
				ended = true
				break
			}
		}
		if ended {
			continue
		}
		// terminator
		last := b.Instrs[len(b.Instrs)-1]
		switch t := last.(type) {
		case *ssa.If:
			c := f.term(t.Cond, &cur)
			s0 := cur.clone()
			s0.R = And(cur.R, c)
			s1 := cur.clone()
			s1.R = And(cur.R, Not(c))
			f.edge(b, b.Succs[0], s0, edges)
			f.edge(b, b.Succs[1], s1, edges)
		case *ssa.Jump:
			f.edge(b, b.Succs[0], cur, edges)
		}
	}
}

func predIndex(b, p *ssa.BasicBlock) int {
	for i, q := range b.Preds {
		if q == p {
			return i
		}
	}
	return -1
}

func (f *Frame) edge(from, to *ssa.BasicBlock, st State, edges map[edgeKey]State) {
	if isBackEdge(from, to) {
		f.loopBack(f.loops[to], from, &st)
		return
	}
	// two edges between the same pair (if c goto X else X): merge
	k := edgeKey{from.Index, to.Index}
	if old, ok := edges[k]; ok {
		edges[k] = f.un.mergeStates([]State{old, st})
		return
	}
	edges[k] = st
}

// ---------------------------------------------------------------------------------------
// loops

func (f *Frame) loopEnv(li *loopInfo, st *State, phiVals map[*ssa.Phi]Term) map[string]Val {
	env := map[string]Val{}
	for k, v := range f.baseEnv(li.header, st) {
		env[k] = v
	}
	for _, ins := range li.header.Instrs {
		phi, ok := ins.(*ssa.Phi)
		if !ok {
			break
		}
		name := phi.Comment
		if name == "" {
			continue
		}
		t := f.vals[phi].T
		if phiVals != nil {
			t = phiVals[phi]
		}
		env[name] = Val{T: t, Go: phi.Type()}
	}
	env["$own"] = Val{} // marker: inside old(), parameter names denote entry values
	// the map range this loop steps through (for seen / seenset)
	for _, ins := range li.header.Instrs {
		if nx, ok := ins.(*ssa.Next); ok {
			if rg, ok := nx.Iter.(*ssa.Range); ok {
				if key, ok := f.ranges[rg]; ok {
					env["$seenkey"] = Val{T: Term{S: key}}
				}
			}
		}
	}
	return env
}

// baseEnv: names visible at block b: params, free variables, results of DebugRefs that dominate b.
func (f *Frame) baseEnv(b *ssa.BasicBlock, st *State) map[string]Val {
	env := map[string]Val{}
	// low priority: a use of the variable anywhere in the function, if the value it denotes is defined in
	// a block dominating b (go/ssa attaches a nil constant to some `x := e` definitions)
	if b != nil {
		for _, blk := range f.fn.Blocks {
			if blk == b || blk.Dominates(b) {
				continue
			}
			for _, ins := range blk.Instrs {
				d, ok := ins.(*ssa.DebugRef)
				if !ok || d.IsAddr {
					continue
				}
				name := debugName(d)
				if name == "" {
					continue
				}
				if xi, ok := d.X.(ssa.Instruction); ok && xi.Block() != nil && xi.Block() != b && xi.Block().Dominates(b) {
					if v, ok := f.vals[d.X]; ok {
						if _, have := env[name]; !have {
							env[name] = v
						}
					}
				}
			}
		}
	}
	for fr := f; fr != nil; fr = nil {
		for _, blk := range fr.fn.Blocks {
			if b != nil && !(blk == b || blk.Dominates(b)) {
				continue
			}
			for _, ins := range blk.Instrs {
				switch d := ins.(type) {
				case *ssa.DebugRef:
					if d.IsAddr {
						continue
					}
					if name := debugName(d); name != "" {
						if v, ok := fr.vals[d.X]; ok {
							if os.Getenv("WV_DEBUG") != "" && name == "destinations" {
								fmt.Fprintf(os.Stderr, "env %s := %q from %s (%T)\n", name, v.T.S, d.X.Name(), d.X)
							}
							env[name] = v
						} else if c, ok := d.X.(*ssa.Const); ok {
							if os.Getenv("WV_DEBUG") != "" && name == "destinations" {
								fmt.Fprintf(os.Stderr, "envC %s := const %v at %v\n", name, c, fr.un.posOf(d.Pos()))
							}
							if _, have := env[name]; !have {
								env[name] = fr.constVal(c)
							}
						}
					}
				case *ssa.Alloc:
					if d.Comment != "" && !strings.Contains(d.Comment, " ") {
						if v, ok := fr.vals[d]; ok {
							lv := v.LV
							if lv == nil && v.T.S != "" {
								lv = fr.un.lvOfPointer(v.T, d.Type())
							}
							if lv != nil {
								env[d.Comment] = Val{T: fr.un.readLV(lv, st), Go: lv.Typ}
							}
						}
					}
				}
			}
		}
		for _, p := range fr.fn.Params {
			if v, ok := fr.vals[p]; ok {
				env[p.Name()] = v
			}
		}
		for _, fv := range fr.fn.FreeVars {
			if v, ok := fr.vals[fv]; ok {
				// free variables are pointers to the captured variable
				if pt, ok := fv.Type().Underlying().(*types.Pointer); ok {
					lv := v.LV
					if lv == nil {
						lv = fr.un.lvOfPointer(v.T, fv.Type())
					}
					env[fv.Name()] = Val{T: fr.un.readLV(lv, st), Go: pt.Elem(), LVSelf: lv}
				} else {
					env[fv.Name()] = v
				}
			}
		}
	}
	return env
}

func debugName(d *ssa.DebugRef) string {
	if id, ok := d.Expr.(*ast.Ident); ok {
		return id.Name
	}
	return ""
}

func isIdent(s string) bool {
	if s == "" {
		return false
	}
	for i, r := range s {
		if !(r == '_' || (r >= 'a' && r <= 'z') || (r >= 'A' && r <= 'Z') || (i > 0 && r >= '0' && r <= '9')) {
			return false
		}
	}
	return true
}

func (f *Frame) loopName(li *loopInfo) string {
	return fmt.Sprintf("%s#%d", f.fn.Name(), li.ordinal)
}

func (f *Frame) loopCut(li *loopInfo, cur *State) {
	un := f.un
	c := li.contract
	// 1. invariant on entry
	if c != nil && !f.pure {
		env := f.loopEnv(li, cur, nil)
		for _, inv := range c.Invs {
			gs := f.evalGoals(inv, env, cur, &f.entry)
			for gi, g := range gs {
				un.obligeNamed(cur, fmt.Sprintf("loop#%d/invariant#%s%s.init", li.ordinal, inv.label(), partSuffix(gi, len(gs))), "invariant", inv.Text, inv.Pos, g)
			}
		}
	}
	li.entrySt = cur.clone()
	// 2. havoc what the loop modifies
	// allocation counter only grows (bumped first: references in havocked memory are below the new counter)
	oldNext := un.H(cur, "$next", SInt)
	un.heapSort["$limit"] = SInt
	cur.H["$limit"] = oldNext
	newNext := un.fresh("next", SInt)
	un.setH(cur, "$next", newNext)
	un.assume(cur, Ge(newNext, oldNext))
	mods := un.eng.loopMods(f, li)
	if os.Getenv("WV_DEBUG") != "" {
		fmt.Fprintf(os.Stderr, "loop %s mods: %v\n", f.loopName(li), sortedBoolKeys(mods))
	}
	if mods["*"] {
		un.havocAll(cur)
		un.note("loop " + f.loopName(li) + " havocs the whole heap (body calls a function with unknown effects)")
	}
	if mods["*nonghost"] && !mods["*"] {
		un.note("loop " + f.loopName(li) + " havocs all program state (not ghost state): body calls a function that may modify anything")
	}
	if !mods["*"] {
		f.havocHeaps(cur, mods)
	}
	for _, ins := range li.header.Instrs {
		phi, ok := ins.(*ssa.Phi)
		if !ok {
			break
		}
		v := un.fresh(phi.Name()+"_"+phi.Comment, un.u.SortOf(phi.Type()))
		f.vals[phi] = Val{T: v, Go: phi.Type()}
		un.assume(cur, un.typeFacts(phi.Type(), v, cur, 0))
	}
	// 3. assume the invariant
	if c != nil {
		env := f.loopEnv(li, cur, nil)
		for _, inv := range c.Invs {
			un.assume(cur, f.evalAssume(inv, env, cur, &f.entry))
		}
	} else if !f.pure {
		un.note("loop " + f.loopName(li) + " has no invariant (true)")
	}
}

func sortedBoolKeys(m map[string]bool) []string {
	ks := make([]string, 0, len(m))
	for k := range m {
		ks = append(ks, k)
	}
	sortStrings(ks)
	return ks
}

func (f *Frame) loopBack(li *loopInfo, from *ssa.BasicBlock, st *State) {
	c := li.contract
	if c == nil || f.pure {
		return
	}
	phiVals := map[*ssa.Phi]Term{}
	pi := predIndex(li.header, from)
	for _, ins := range li.header.Instrs {
		phi, ok := ins.(*ssa.Phi)
		if !ok {
			break
		}
		phiVals[phi] = f.term(phi.Edges[pi], st)
	}
	env := f.loopEnv(li, st, phiVals)
	for _, inv := range c.Invs {
		gs := f.evalGoals(inv, env, st, &f.entry)
		for gi, g := range gs {
			f.un.obligeNamed(st, fmt.Sprintf("loop#%d/invariant#%s%s.preserve@b%d", li.ordinal, inv.label(), partSuffix(gi, len(gs)), from.Index), "invariant", inv.Text, inv.Pos, g)
		}
	}
}
