package main

import (
	"fmt"
	"go/token"
	"go/types"
	"sort"
	"strings"

	"golang.org/x/tools/go/ssa"
)

const maxInlineDepth = 5

// call translates a call instruction.
func (f *Frame) call(c *ssa.CallCommon, at ssa.Instruction, st *State, pos token.Pos) Val {
	if b, ok := c.Value.(*ssa.Builtin); ok {
		var args []Val
		for _, a := range c.Args {
			args = append(args, f.val(a, st))
		}
		return f.builtin(b, c, args, at, st)
	}
	var args []Val
	var fnv Val
	if c.IsInvoke() || c.StaticCallee() == nil {
		fnv = f.val(c.Value, st)
	} else if mc, ok := c.Value.(*ssa.MakeClosure); ok {
		fnv = f.val(mc, st)
	}
	for _, a := range c.Args {
		args = append(args, f.val(a, st))
	}
	r := f.applyCall(c, fnv, args, st, pos)
	f.assumeNoForeignSentinel(c, r, st)
	return r
}

// assumeNoForeignSentinel (A-SENTINEL): an error returned by a function of ANOTHER package (or through an interface
// declared in another package) is never one of the package-level error sentinels `var ErrX = errors.New(...)` of the package
// of the function under verification: those are created once by that package and handed out only by its own functions
// (whose contracts have to say so where it matters). Without this, "returns ErrSessionDisconnected only for a DISCONNECT"
// could not be stated: every error passed on from a callee might be the sentinel.
func (f *Frame) assumeNoForeignSentinel(c *ssa.CallCommon, r Val, st *State) {
	if f.pure || f.fn == nil {
		return
	}
	self := f.fn.Pkg
	if self == nil && f.fn.Parent() != nil {
		self = f.fn.Parent().Pkg
	}
	if self == nil {
		return
	}
	var calleePkg *types.Package
	if c.IsInvoke() {
		if n, ok := c.Value.Type().(*types.Named); ok {
			calleePkg = n.Obj().Pkg()
		}
	} else if fn := c.StaticCallee(); fn != nil && fn.Pkg != nil {
		calleePkg = fn.Pkg.Pkg
	}
	if calleePkg == nil || calleePkg == self.Pkg {
		return
	}
	errT := types.Universe.Lookup("error").Type()
	var errs []Term
	res := c.Signature().Results()
	if res.Len() == 1 && types.Identical(res.At(0).Type(), errT) && r.T.S != "" {
		errs = append(errs, r.T)
	} else if res.Len() > 1 && len(r.Tup) == res.Len() {
		for i := 0; i < res.Len(); i++ {
			if types.Identical(res.At(i).Type(), errT) && r.Tup[i].T.S != "" {
				errs = append(errs, r.Tup[i].T)
			}
		}
	}
	if len(errs) == 0 {
		return
	}
	var names []string
	for n, m := range self.Members {
		if g, ok := m.(*ssa.Global); ok && strings.HasPrefix(n, "Err") {
			if pt, ok := g.Type().Underlying().(*types.Pointer); ok && types.Identical(pt.Elem(), errT) {
				names = append(names, n)
			}
		}
	}
	sort.Strings(names)
	for _, n := range names {
		g := self.Members[n].(*ssa.Global)
		if sv, ok := f.un.eng.globalConst(f.un, g); ok {
			for _, e := range errs {
				f.un.assume(st, Neq(e, sv))
			}
		}
	}
	if len(names) > 0 {
		f.un.note("A-SENTINEL: errors returned by functions of other packages are none of this package's error sentinels")
	}
}

func (f *Frame) applyCall(c *ssa.CallCommon, fnv Val, args []Val, st *State, pos token.Pos) Val {
	un := f.un
	eng := un.eng
	sig := c.Signature()
	if c.IsInvoke() {
		// interface method call
		recv := fnv
		key := "(" + types.TypeString(c.Value.Type(), nil) + ")." + c.Method.Name()
		if ct := eng.contracts[key]; ct != nil {
			// a pure interface contract only names the method's value; when the dynamic type is known the method itself is
			// more precise (it reads the current heap)
			usable := true
			if ct.Pure && recv.Dyn != nil && len(ct.Ensures) == 0 {
				if m := eng.prog.LookupMethod(recv.Dyn, c.Method.Pkg(), c.Method.Name()); m != nil && len(m.Blocks) > 0 {
					usable = false
				}
			}
			if usable {
				return f.applyContract(ct, nil, sig, append([]Val{recv}, args...), nil, st, pos, key)
			}
		}
		if recv.Dyn != nil {
			if m := eng.prog.LookupMethod(recv.Dyn, c.Method.Pkg(), c.Method.Name()); m != nil {
				u := un.u
				self := Val{T: u.Unbox(IVal(recv.T), u.SortOf(recv.Dyn)), Go: recv.Dyn}
				return f.applyFunction(m, nil, append([]Val{self}, args...), st, pos)
			}
		}
		inRepo := false
		if n, ok := c.Value.Type().(*types.Named); ok && n.Obj().Pkg() != nil && strings.HasPrefix(n.Obj().Pkg().Path(), repoModule) {
			inRepo = true
		}
		return f.havocCall(key, sig, append([]Val{recv}, args...), st, inRepo)
	}
	if fn := c.StaticCallee(); fn != nil {
		var bind []Val
		if fnv.Clo != nil {
			bind = fnv.Clo.Bind
		}
		f.checkCallbackArgs(fn, c, args, st, pos)
		return f.applyFunction(fn, bind, args, st, pos)
	}
	if fnv.Clo != nil {
		return f.applyFunction(fnv.Clo.Fn, fnv.Clo.Bind, args, st, pos)
	}
	// calling a nil function value panics
	if !f.pure && fnv.T.S != "" && fnv.T.Sort == SInt && !isGlobalFuncVar(c.Value) && !isDeferredCancel(c.Value) {
		un.oblige(st, "nil", "call through function value "+c.Value.Name()+" (nil would panic)", pos, Neq(fnv.T, IntLit(0)), true)
	}
	// callback parameter with a declared meaning?
	if ct := eng.callbackContract(f, c.Value); ct != nil {
		if ct.Pure && len(ct.Ensures) == 0 && len(ct.Requires) == 0 && sig.Results().Len() == 1 {
			// a pure callback: one (unknown) function of the function value and the arguments
			return f.pureCallbackApp(callbackKey(f.fn, c.Value), fnv.T, args, sig)
		}
		return f.applyContract(ct, nil, sig, args, nil, st, pos, ct.Name)
	}
	// a function value of a type declared outside the repository (context.CancelFunc, ...) cannot
	// reach repository state other than through its arguments
	if n, ok := c.Value.Type().(*types.Named); ok && n.Obj().Pkg() != nil && !strings.HasPrefix(n.Obj().Pkg().Path(), repoModule) {
		return f.havocCall("call of "+types.TypeString(n, nil)+" value", sig, args, st, false)
	}
	return f.havocCall("dynamic call of "+c.Value.Name()+" in "+f.fn.Name(), sig, args, st, true)
}

// checkCallbackArgs: a function passed for a parameter whose behaviour the callee ASSUMES (assume-call contract) must stay
// within the assumed frame. Closures and functions of the repository are checked by heap name (their inferred or declared
// modifies set against the assumed one); a callback parameter passed on is checked contract against contract; anything else
// is recorded as an unchecked assumption.
func (f *Frame) checkCallbackArgs(fn *ssa.Function, c *ssa.CallCommon, args []Val, st *State, pos token.Pos) {
	un := f.un
	eng := un.eng
	if f.pure || len(fn.Params) != len(c.Args) {
		return
	}
	for i, a := range c.Args {
		sig, ok := a.Type().Underlying().(*types.Signature)
		if !ok {
			continue
		}
		cb := eng.callbacks[fn.String()+"."+fn.Params[i].Name()]
		if cb == nil {
			continue
		}
		allowed := map[string]bool{}
		if cb.HasMod {
			eng.declaredMods(cb, nil, sig, allowed)
		} else if !cb.Pure {
			allowed["*"] = true
		}
		actual := map[string]bool{}
		what := ""
		var afn *ssa.Function
		switch x := a.(type) {
		case *ssa.MakeClosure:
			afn = x.Fn.(*ssa.Function)
		case *ssa.Function:
			afn = x
		default:
			if i < len(args) && args[i].Clo != nil {
				afn = args[i].Clo.Fn
			}
		}
		if afn != nil {
			what = afn.String()
			eng.fnMods(afn, nil, actual)
		} else if ocb := eng.callbackContract(f, a); ocb != nil {
			what = ocb.Name
			if ocb.HasMod {
				eng.declaredMods(ocb, nil, sig, actual)
			} else if !ocb.Pure {
				actual["*"] = true
			}
		} else {
			un.note("function value passed to " + fn.String() + " for " + fn.Params[i].Name() + " is not checked against the assumed callback contract")
			continue
		}
		for _, k := range sortedBoolKeys(actual) {
			if strings.HasPrefix(k, "new:") || modAllowed(k, allowed) {
				continue
			}
			un.obligeNamed(st, fmt.Sprintf("callback:%s.%s:%s@%s", shortFn(fn.String()), fn.Params[i].Name(), k, un.siteTag("cb:"+fn.String(), pos)), "callback",
				what+" may modify "+k+", which the callback contract of "+fn.Params[i].Name()+" does not allow", un.posOf(pos), tFalse)
		}
	}
}

// modAllowed: heap name k (or wildcard) is covered by the modifies set `allowed`.
func modAllowed(k string, allowed map[string]bool) bool {
	if allowed["*"] || allowed[k] {
		return true
	}
	ghost := strings.HasPrefix(k, "G_")
	if k == "*" {
		return false
	}
	if strings.HasPrefix(k, "*nonghost") {
		// a wildcard is covered only by the same or a larger wildcard
		if allowed["*nonghost"] {
			return true
		}
		if strings.HasPrefix(k, "*nonghost-except:") {
			have := map[string]bool{}
			for _, h := range strings.Split(strings.TrimPrefix(k, "*nonghost-except:"), ",") {
				have[h] = true
			}
			for a := range allowed {
				if strings.HasPrefix(a, "*nonghost-except:") {
					ok := true
					for _, h := range strings.Split(strings.TrimPrefix(a, "*nonghost-except:"), ",") {
						if !have[h] {
							ok = false
						}
					}
					if ok {
						return true
					}
				}
			}
		}
		return false
	}
	if ghost {
		return false
	}
	if allowed["*nonghost"] {
		return true
	}
	for a := range allowed {
		if strings.HasPrefix(a, "*nonghost-except:") {
			ex := false
			for _, h := range strings.Split(strings.TrimPrefix(a, "*nonghost-except:"), ",") {
				if h == k {
					ex = true
				}
			}
			if !ex {
				return true
			}
		}
	}
	return false
}

// isGlobalFuncVar: a package-level function variable read (`clock()`): initialised by the package, never nil (A-GLOBALS).
func isGlobalFuncVar(v ssa.Value) bool {
	if u, ok := v.(*ssa.UnOp); ok {
		_, g := u.X.(*ssa.Global)
		return g
	}
	return false
}

// isDeferredCancel: the CancelFunc returned by context.WithCancel / WithTimeout / WithDeadline is never nil.
func isDeferredCancel(v ssa.Value) bool {
	ex, ok := v.(*ssa.Extract)
	if !ok {
		return false
	}
	call, ok := ex.Tuple.(*ssa.Call)
	if !ok {
		return false
	}
	if fn := call.Call.StaticCallee(); fn != nil && fn.Pkg != nil && fn.Pkg.Pkg.Path() == "context" {
		switch fn.Name() {
		case "WithCancel", "WithTimeout", "WithDeadline":
			return ex.Index == 1
		}
	}
	return false
}

// pureCallbackApp: the value of a pure callback (assume-call ... pure) applied to args.
func (f *Frame) pureCallbackApp(key string, fnv Term, args []Val, sig *types.Signature) Val {
	un := f.un
	rt := sig.Results().At(0).Type()
	rs := un.u.SortOf(rt)
	ts := []Term{fnv}
	as := []Sort{fnv.Sort}
	for _, a := range args {
		ts = append(ts, a.T)
		as = append(as, a.T.Sort)
	}
	name := "cbv_" + sanitize(key)
	un.eng.declareUF(name, as, rs)
	return Val{T: mk(rs, "uf_"+name, ts...), Go: rt}
}

func (f *Frame) onStack(fn *ssa.Function) bool {
	for fr := f; fr != nil; fr = fr.parent {
		if fr.fn == fn {
			return true
		}
	}
	return false
}

func (f *Frame) applyFunction(fn *ssa.Function, bind []Val, args []Val, st *State, pos token.Pos) Val {
	un := f.un
	eng := un.eng
	if ct := eng.contractFor(fn); ct != nil && !(ct.Inline && len(fn.Blocks) > 0 && f.depth < maxInlineDepth && !f.onStack(fn)) {
		return f.applyContract(ct, fn, fn.Signature, args, bind, st, pos, fn.String())
	}
	if r, ok := eng.special(f, fn, args, st, pos); ok {
		return r
	}
	if len(fn.Blocks) > 0 && f.depth < maxInlineDepth && !f.onStack(fn) {
		return f.inline(fn, bind, args, st)
	}
	if len(fn.Blocks) > 0 {
		un.note("call to " + fn.String() + " not inlined (recursion/depth): effects havocked")
		return f.havocCall(fn.String(), fn.Signature, args, st, true)
	}
	return f.havocCall(fn.String(), fn.Signature, args, st, false)
}

func (f *Frame) inline(fn *ssa.Function, bind []Val, args []Val, st *State) Val {
	un := f.un
	child := &Frame{un: un, fn: fn, vals: map[ssa.Value]Val{}, parent: f, depth: f.depth + 1, pure: f.pure, entry: f.entry}
	if len(args) != len(fn.Params) {
		f.fail("inline %s: %d args for %d params", fn.Name(), len(args), len(fn.Params))
	}
	for i, p := range fn.Params {
		child.vals[p] = args[i]
	}
	for i, fv := range fn.FreeVars {
		if i < len(bind) {
			child.vals[fv] = bind[i]
		}
	}
	child.body(*st)
	return f.joinReturns(child, fn.Signature, st)
}

// joinReturns merges the return points of child into st and yields the result value.
func (f *Frame) joinReturns(child *Frame, sig *types.Signature, st *State) Val {
	un := f.un
	if len(child.rets) == 0 {
		// never returns
		st.R = tFalse
		return f.zeroResults(sig)
	}
	var sts []State
	for i := range child.rets {
		s := child.rets[i].st
		s.R = un.define("E", s.R)
		sts = append(sts, s)
	}
	merged := un.mergeStates(sts)
	nres := sig.Results().Len()
	var outs []Val
	for i := 0; i < nres; i++ {
		var vals []Term
		ok := true
		for _, r := range child.rets {
			if r.vals[i].T.S == "" {
				ok = false
				break
			}
			vals = append(vals, r.vals[i].T)
		}
		if !ok {
			if len(child.rets) == 1 {
				outs = append(outs, child.rets[0].vals[i])
				continue
			}
			f.fail("inlined %s returns a non-first-class value on several paths", child.fn.Name())
		}
		v := Val{T: un.define("ret", un.iteChain(sts, vals)), Go: sig.Results().At(i).Type()}
		if len(child.rets) == 1 {
			v.Clo = child.rets[0].vals[i].Clo
			v.Dyn = child.rets[0].vals[i].Dyn
		}
		outs = append(outs, v)
	}
	// drop callee locals
	for k := range merged.H {
		if _, ok := st.H[k]; !ok && (strings.HasPrefix(k, "L") && len(k) > 1 && k[1] >= '0' && k[1] <= '9') {
			delete(merged.H, k)
		}
	}
	*st = merged
	switch nres {
	case 0:
		return Val{}
	case 1:
		return outs[0]
	}
	return Val{Tup: outs}
}

func (f *Frame) zeroResults(sig *types.Signature) Val {
	u := f.un.u
	n := sig.Results().Len()
	var outs []Val
	for i := 0; i < n; i++ {
		t := sig.Results().At(i).Type()
		outs = append(outs, Val{T: u.Zero(u.SortOf(t)), Go: t})
	}
	switch n {
	case 0:
		return Val{}
	case 1:
		return outs[0]
	}
	return Val{Tup: outs}
}

func (f *Frame) freshResults(sig *types.Signature, st *State, hint string) (Val, []Val) {
	un := f.un
	n := sig.Results().Len()
	var outs []Val
	for i := 0; i < n; i++ {
		t := sig.Results().At(i).Type()
		v := un.fresh(hint, un.u.SortOf(t))
		outs = append(outs, Val{T: v, Go: t})
	}
	switch n {
	case 0:
		return Val{}, outs
	case 1:
		return outs[0], outs
	}
	return Val{Tup: outs}, outs
}

// havocHeaps havocs the given heap names in st ("*" = everything but locals).
func (f *Frame) havocHeaps(st *State, mods map[string]bool) {
	un := f.un
	if mods["*"] {
		un.havocAll(st)
		return
	}
	if mods["*nonghost"] {
		un.havocAllButGhost(st)
	}
	for _, k := range sortedBoolKeys(mods) {
		if k == "*nonghost" {
			continue
		}
		if strings.HasPrefix(k, "*nonghost-except:") {
			if mods["*nonghost"] {
				continue
			}
			saved := map[string]Term{}
			for _, h := range strings.Split(strings.TrimPrefix(k, "*nonghost-except:"), ",") {
				if s, ok := un.heapSort[h]; ok {
					saved[h] = un.H(st, h, s)
				} else if s, ok := un.eng.heapSortHint[h]; ok {
					un.heapInit(h, s)
					saved[h] = un.H(st, h, s)
				}
			}
			un.havocAllButGhost(st)
			for h, v := range saved {
				st.H[h] = v
			}
			continue
		}
		if strings.HasPrefix(k, "new:") {
			if !mods[k[4:]] {
				un.havocFresh(st, k[4:])
			}
			continue
		}
		if un.eng.immutable[k] {
			un.havocFresh(st, k)
			continue
		}
		s, ok := un.heapSort[k]
		if !ok {
			s, ok = un.eng.heapSortHint[k]
			if !ok {
				continue
			}
		}
		un.heapInit(k, s)
		st.H[k] = un.freshHeap(st, k, s)
	}
}

func (f *Frame) bumpNext(st *State) {
	un := f.un
	old := un.H(st, "$next", SInt)
	un.heapSort["$limit"] = SInt
	st.H["$limit"] = old // what existed before the call
	nn := un.fresh("next", SInt)
	un.setH(st, "$next", nn)
	un.assume(st, Ge(nn, old))
}

// havocCall models a call whose body and contract are unknown.
func (f *Frame) havocCall(name string, sig *types.Signature, args []Val, st *State, repo bool) Val {
	un := f.un
	mods := map[string]bool{}
	if repo {
		mods["*"] = true
		un.note("call to " + name + " has neither contract nor inlinable body: whole heap havocked")
	} else {
		un.eng.typedHavocSet(un, args, mods)
		un.note("external call " + name + ": result unconstrained; only memory reachable from pointer/slice/map arguments (one level, by type) is havocked")
	}
	f.bumpNext(st)
	f.havocHeaps(st, mods)
	res, outs := f.freshResults(sig, st, "ext")
	for _, o := range outs {
		un.assume(st, un.typeFacts(o.Go, o.T, st, 0))
	}
	return res
}

// ---------------------------------------------------------------------------------------
// contracts at call sites

func (f *Frame) contractEnv(ct *Contract, fn *ssa.Function, args []Val, bind []Val, st *State) map[string]Val {
	env := map[string]Val{}
	if fn != nil && len(fn.Params) == len(args) && len(fn.Params) > 0 {
		for i, p := range fn.Params {
			env[p.Name()] = args[i]
		}
	}
	// header names (authoritative for trusted functions and interface methods)
	if len(ct.Params) == len(args) {
		for i, p := range ct.Params {
			if _, dup := env[p.Name]; !dup {
				env[p.Name] = args[i]
			}
		}
	} else if len(ct.Params) == len(args)-1 && fn != nil && fn.Signature.Recv() != nil {
		// header without the receiver
		for i, p := range ct.Params {
			if _, dup := env[p.Name]; !dup {
				env[p.Name] = args[i+1]
			}
		}
	} else if fn == nil || len(fn.Params) == 0 {
		if len(args) > 0 {
			f.fail("contract %s declares %d parameters, call has %d", ct.Name, len(ct.Params), len(args))
		}
	}
	if fn != nil {
		for i, fv := range fn.FreeVars {
			if i < len(bind) {
				b := bind[i]
				if pt, ok := fv.Type().Underlying().(*types.Pointer); ok {
					lv := b.LV
					if lv == nil {
						lv = f.un.lvOfPointer(b.T, fv.Type())
					}
					env[fv.Name()] = Val{T: f.un.readLV(lv, st), Go: pt.Elem(), LVSelf: lv}
				} else {
					env[fv.Name()] = b
				}
			}
		}
	}
	return env
}

func (f *Frame) applyContract(ct *Contract, fn *ssa.Function, sig *types.Signature, args []Val, bind []Val, st *State, pos token.Pos, name string) Val {
	un := f.un
	if ct.Pkg != "" {
		saved := f.clausePkg
		f.clausePkg = ct.Pkg
		defer func() { f.clausePkg = saved }()
	}
	env := f.contractEnv(ct, fn, args, bind, st)
	// preconditions that hold for calls from this particular caller (callsite contracts)
	if !f.pure {
		for fr := f; fr != nil; fr = fr.parent {
			if fr.parent != nil {
				continue
			}
			for _, sc := range un.eng.callsites[fr.fn.String()+"|"+name] {
				senv := map[string]Val{}
				if fr == f && f.curBlock != nil {
					for k, v := range f.baseEnv(f.curBlock, st) {
						senv[k] = v
					}
				}
				// only the names written in the callsite header denote the callee's arguments
				var hfn *ssa.Function
				if fn != nil && fn.Signature.Recv() != nil && len(sc.Params) == len(args)-1 {
					hfn = fn
				}
				for k, v := range f.headerEnv(sc, hfn, args) {
					senv[k] = v
				}
				for _, rq := range sc.Requires {
					gs := f.evalGoals(rq, senv, st, &f.top().entry)
					for gi, g := range gs {
						un.obligeNamed(st, fmt.Sprintf("site:%s#%s%s@%s", shortFn(name), rq.label(), partSuffix(gi, len(gs)), un.siteTag(name, pos)), "callsite", rq.Text, un.posOf(pos), g)
					}
				}
			}
		}
	}
	if ct.MayPanic && !f.pure {
		// C18: a panic raised by this callee must be caught before it leaves the goroutine's entry function
		goal := tFalse
		top := f.top()
		for _, d := range top.defers {
			if deferRecovers(d) {
				if flag, ok := st.H[d.key]; ok {
					goal = Or(goal, flag)
				}
			}
		}
		un.obligeNamed(st, fmt.Sprintf("escape:%s@%s", shortFn(name), un.siteTag(name, pos)), "escape", "a panic of "+shortFn(name)+" is recovered by a deferred function of "+top.fn.Name(), un.posOf(pos), goal)
	}
	for _, rq := range ct.Requires {
		if f.pure {
			un.assume(st, f.evalAssume(rq, env, st, st))
			continue
		}
		un.ord["call"]++
		gs := f.evalGoals(rq, env, st, st)
		for gi, g := range gs {
			un.obligeNamed(st, fmt.Sprintf("pre:%s#%s%s@%s", shortFn(name), rq.label(), partSuffix(gi, len(gs)), un.siteTag(name, pos)), "precondition", rq.Text, un.posOf(pos), g)
		}
	}
	old := st.clone()
	if !ct.Pure {
		f.bumpNext(st)
	}
	// frame
	if ct.HasMod {
		f.applyMods(ct.Modifies, env, st, &old)
	} else if ct.Pure {
		// nothing
	} else if fn != nil && len(fn.Blocks) > 0 {
		f.havocHeaps(st, un.eng.modsOf(fn))
	} else {
		mods := map[string]bool{}
		un.eng.typedHavocSet(un, args, mods)
		f.havocHeaps(st, mods)
	}
	// a pure contract with a defining postcondition `r == e` yields e itself (usable under quantifiers)
	if ct.Pure && sig.Results().Len() == 1 {
		rname := "result"
		if len(ct.Results) == 1 {
			rname = ct.Results[0].Name
		}
		for _, en := range ct.Ensures {
			if b, ok := en.E.(EBinary); ok && (b.Op == "==" || b.Op == "<==>") {
				if id, ok := b.L.(EIdent); ok && id.Name == rname {
					v := f.eval(b.R, &evalCtx{env: env, cur: st, old: &old})
					v.Go = sig.Results().At(0).Type()
					if v.T.Sort == un.u.SortOf(v.Go) {
						env[rname] = v
						env["result"] = v
						if un.inQuant == 0 && !f.pure {
							un.assume(st, un.typeFacts(v.Go, v.T, st, 0))
						}
						for _, en2 := range ct.Ensures {
							if en2 != en {
								un.assume(st, f.evalAssume(en2, env, st, &old))
							}
						}
						f.applyRecords(ct, env, st, &old)
						return v
					}
				}
			}
		}
	}
	res, outs := f.freshResults(sig, st, "res_"+shortFn(name))
	if ct.Pure && fn == nil && sig.Results().Len() == 1 && un.inQuant == 0 {
		// pure interface method without a defining postcondition: a function of receiver and arguments
		rt := sig.Results().At(0).Type()
		var ts []Term
		var as []Sort
		okArgs := true
		for _, a := range args {
			if a.T.S == "" {
				okArgs = false
			}
			ts = append(ts, a.T)
			as = append(as, a.T.Sort)
		}
		if okArgs {
			un.eng.declareUF("m_"+sanitize(name), as, un.u.SortOf(rt))
			v := Val{T: mk(un.u.SortOf(rt), "uf_m_"+sanitize(name), ts...), Go: rt}
			res, outs = v, []Val{v}
		}
	}
	for i, o := range outs {
		un.assume(st, un.typeFacts(o.Go, o.T, st, 0))
		if i < len(ct.Results) {
			env[ct.Results[i].Name] = o
		}
	}
	if len(outs) == 1 {
		env["result"] = outs[0]
	}
	for _, en := range ct.Ensures {
		un.assume(st, f.evalAssume(en, env, st, &old))
	}
	f.applyRecords(ct, env, st, &old)
	return res
}

// applyRecords performs the `records #g := e` bookkeeping of a contract at a call site.
func (f *Frame) applyRecords(ct *Contract, env map[string]Val, st, old *State) {
	un := f.un
	for _, rc := range ct.Records {
		g := strings.TrimPrefix(strings.TrimPrefix(rc.Kind, "records:"), "#")
		srt, ok := un.eng.ghostVars[g]
		if !ok {
			f.fail("%s: records: unknown ghost variable #%s", rc.Pos, g)
		}
		v := f.eval(rc.E, &evalCtx{env: env, cur: st, old: old})
		if v.T.Sort == "nil" {
			v.T = un.u.Zero(srt)
		}
		if v.T.Sort != srt {
			f.fail("%s: records #%s: sort %s, expected %s", rc.Pos, g, v.T.Sort, srt)
		}
		un.heapInit("G_"+sanitize(g), srt)
		un.setH(st, "G_"+sanitize(g), v.T)
	}
}

func shortFn(name string) string {
	// strip package paths: keep last path element
	out := name
	for {
		i := strings.Index(out, "/")
		if i < 0 {
			break
		}
		// remove up to and including the slash, but keep any leading "(*"
		j := strings.LastIndexAny(out[:i], "(*")
		out = out[:j+1] + out[i+1:]
	}
	return out
}

// applyMods havocs what a modifies clause names.
func (f *Frame) applyMods(mods []string, env map[string]Val, st *State, old *State) {
	un := f.un
	var all []modEntry
	// `when p is *T: item`: dropped when the dynamic type of p is known to be another one
	{
		var kept []string
		for _, m := range mods {
			if g, rest, ok := modGuard(m); ok {
				parts := strings.SplitN(g, "|", 3)
				if v, have := env[parts[1]]; have && v.Dyn != nil {
					pkg := parts[0]
					if pkg == "" {
						pkg = f.clausePkg
					}
					if want := un.eng.lookupTypeIn(parts[2], pkg); want != nil && !types.Identical(v.Dyn, want) {
						continue
					}
				}
				m = rest
			}
			kept = append(kept, m)
		}
		mods = kept
	}
	// effects(p): whatever the function passed for the parameter p may modify (its declared or inferred frame), any number of times
	{
		var kept []string
		for _, m := range mods {
			mm := strings.TrimSpace(m)
			if strings.HasPrefix(mm, "effects(") && strings.HasSuffix(mm, ")") {
				pn := strings.TrimSpace(mm[8 : len(mm)-1])
				names := map[string]bool{}
				if v, ok := env[pn]; ok && v.Clo != nil {
					// precise when the closure has a contract whose frame can be evaluated on its captured variables
					if ct2 := un.eng.contractFor(v.Clo.Fn); ct2 != nil && ct2.HasMod && f.applyClosureMods(ct2, v.Clo, st, old) {
						continue
					}
					un.eng.fnMods(v.Clo.Fn, nil, names)
				} else {
					names["*nonghost"] = true
				}
				f.havocHeaps(st, names)
				continue
			}
			kept = append(kept, m)
		}
		mods = kept
	}
	// except(item): heaps that a `*` leaves alone
	saved := map[string]Term{}
	for _, m := range mods {
		if x, ok := exceptItem(m); ok {
			for _, me := range f.resolveMod(x, env, old) {
				if s, ok := un.heapSort[me.heap]; ok {
					saved[me.heap] = un.H(st, me.heap, s)
				}
			}
		}
	}
	for _, m := range mods {
		if _, ok := exceptItem(m); ok {
			continue
		}
		if strings.TrimSpace(m) == "*" {
			un.havocAllButGhost(st)
			for k, v := range saved {
				st.H[k] = v
			}
			continue
		}
		all = append(all, f.resolveMod(m, env, old)...)
	}
	rowsDone := map[string]bool{}
	for _, me := range all {
		s, ok := un.heapSort[me.heap]
		if !ok {
			s, ok = un.eng.heapSortHint[me.heap]
			if !ok && strings.HasPrefix(me.heap, "K_") {
				s, ok = ArrSort(SInt, SInt), true // lock-state heap not touched in this unit so far
				un.heapInit(me.heap, s)
			}
			if !ok {
				f.fail("modifies: unknown heap %s", me.heap)
			}
		}
		h := un.H(st, me.heap, s)
		switch {
		case me.rows:
			if rowsDone[me.heap] {
				continue
			}
			rowsDone[me.heap] = true
			whole := false
			var named []Term
			for _, m2 := range all {
				if m2.heap != me.heap {
					continue
				}
				if !m2.rows {
					whole = true
				} else if m2.ref.S != "" {
					named = append(named, m2.ref)
				}
			}
			if whole {
				continue // handled by the whole-heap entry
			}
			hOld := un.H(old, me.heap, s)
			nh := un.fresh(me.heap+"_rows", s)
			un.heapTyping(me.heap, nh, un.H(st, "$next", SInt))
			b := Term{"b!fr", SInt}
			var excl []Term
			for _, r := range named {
				excl = append(excl, Neq(b, r))
			}
			un.assume(st, Forall([]Term{b}, Implies(And(append(excl, Le(b, un.H(old, "$next", SInt)))...), Eq(Select(nh, b), Select(hOld, b))), Select(nh, b)))
			st.H[me.heap] = nh
		case me.ref.S == "":
			st.H[me.heap] = un.freshHeap(st, me.heap, s)
		default:
			v := un.fresh(me.heap+"_at", elemSort(s))
			un.setH(st, me.heap, Store(h, me.ref, v))
		}
	}
}

// modTypeOf: a modifies item may name a type instead of an expression: `T`, `*T`, or `T.field` (the type of that field).
func (f *Frame) modTypeOf(e Expr, env map[string]Val) types.Type {
	switch x := e.(type) {
	case EIdent:
		if _, ok := env[x.Name]; ok {
			return nil
		}
		return f.lookupType(x.Name)
	case EUnary:
		if x.Op == "*" {
			if t := f.modTypeOf(x.X, env); t != nil {
				return types.NewPointer(t)
			}
		}
	case EField:
		if id, ok := x.X.(EIdent); ok {
			if _, bound := env[id.Name]; bound {
				return nil
			}
			if t := f.lookupType(id.Name + "." + x.Name); t != nil {
				return t
			}
		}
		if t := f.modTypeOf(x.X, env); t != nil {
			if T, st := derefStruct(t); st != nil {
				_ = T
				for i := 0; i < st.NumFields(); i++ {
					if st.Field(i).Name() == x.Name {
						return st.Field(i).Type()
					}
				}
			}
		}
	}
	return nil
}

// applyClosureMods havocs what the contract of a closure declares, evaluated on the closure's captured variables (its
// parameters are unknown: an item that mentions one makes the attempt fail and the caller falls back to heap names).
func (f *Frame) applyClosureMods(ct *Contract, clo *Closure, st *State, old *State) (ok bool) {
	un := f.un
	env := map[string]Val{}
	for i, fv := range clo.Fn.FreeVars {
		if i >= len(clo.Bind) {
			return false
		}
		b := clo.Bind[i]
		if pt, isPtr := fv.Type().Underlying().(*types.Pointer); isPtr {
			lv := b.LV
			if lv == nil {
				lv = un.lvOfPointer(b.T, fv.Type())
			}
			env[fv.Name()] = Val{T: un.readLV(lv, st), Go: pt.Elem(), LVSelf: lv}
		} else {
			env[fv.Name()] = b
		}
	}
	saved := st.clone()
	defer func() {
		if r := recover(); r != nil {
			if _, u := r.(unsupported); !u {
				panic(r)
			}
			*st = saved
			ok = false
		}
	}()
	savedPkg := f.clausePkg
	f.clausePkg = ct.Pkg
	defer func() { f.clausePkg = savedPkg }()
	f.applyMods(ct.Modifies, env, st, old)
	return true
}

// exceptItem recognises `except(item)` in a modifies list.
func exceptItem(m string) (string, bool) {
	m = strings.TrimSpace(m)
	if strings.HasPrefix(m, "@@") {
		if j := strings.Index(m[2:], "@@"); j >= 0 {
			if x, ok := exceptItem(m[2+j+2:]); ok {
				return m[:2+j+2] + x, true
			}
			return "", false
		}
	}
	if strings.HasPrefix(m, "except(") && strings.HasSuffix(m, ")") {
		return m[7 : len(m)-1], true
	}
	return "", false
}

type modEntry struct {
	heap string
	ref  Term // empty: whole heap
	rows bool // element heap: only row `ref` (if any) and rows allocated by the callee change
}

// resolveMod: "x.f" | "x.#g" | "*p" | "elems(e)" | "mapof(e)" | "#g" | "heap(N)" | "fields(x)"
func (f *Frame) resolveMod(m string, env map[string]Val, st *State) []modEntry {
	un := f.un
	m = strings.TrimSpace(m)
	if strings.HasPrefix(m, "@@") {
		if j := strings.Index(m[2:], "@@"); j >= 0 {
			saved := f.clausePkg
			f.clausePkg = m[2 : 2+j]
			defer func() { f.clausePkg = saved }()
			m = m[2+j+2:]
		}
	}
	switch {
	case strings.HasPrefix(m, "heap(") && strings.HasSuffix(m, ")"):
		return []modEntry{{heap: m[5 : len(m)-1]}}
	case strings.HasPrefix(m, "#"):
		return []modEntry{{heap: "G_" + sanitize(m[1:])}}
	case strings.HasPrefix(m, "elems(") && strings.HasSuffix(m, ")"):
		e, err := ParseExpr(m[6 : len(m)-1])
		if err != nil {
			f.fail("modifies %s: %v", m, err)
		}
		cv := f.eval(e, &evalCtx{env: env, cur: st, old: st})
		sl, ok := cv.Go.Underlying().(*types.Slice)
		if !ok {
			f.fail("modifies %s: not a slice", m)
		}
		hn := un.elemHeap(sl.Elem())
		un.heapInit(hn, ArrSort(SInt, ArrSort(SInt, un.u.SortOf(sl.Elem()))))
		return []modEntry{{heap: hn, ref: SBase(cv.T), rows: true}}
	case m == "newrows(byteslices)":
		bt := types.NewSlice(types.Typ[types.Uint8])
		hn := un.elemHeap(bt)
		un.heapInit(hn, ArrSort(SInt, ArrSort(SInt, SSlice)))
		return []modEntry{{heap: hn, rows: true}}
	case m == "newrows(bytes)":
		hn := un.elemHeap(types.Typ[types.Uint8])
		un.heapInit(hn, ArrSort(SInt, ArrSort(SInt, SInt)))
		return []modEntry{{heap: hn, rows: true}}
	case strings.HasPrefix(m, "newrows(") && strings.HasSuffix(m, ")"):
		e, err := ParseExpr(m[8 : len(m)-1])
		if err != nil {
			f.fail("modifies %s: %v", m, err)
		}
		// newrows(T): rows of []T allocated by the callee (T a type name)
		if et := f.modTypeOf(e, env); et != nil {
			hn := un.elemHeap(et)
			un.heapInit(hn, ArrSort(SInt, ArrSort(SInt, un.u.SortOf(et))))
			return []modEntry{{heap: hn, rows: true}}
		}
		cv := f.eval(e, &evalCtx{env: env, cur: st, old: st})
		sl, ok := cv.Go.Underlying().(*types.Slice)
		if !ok {
			f.fail("modifies %s: not a slice", m)
		}
		hn := un.elemHeap(sl.Elem())
		un.heapInit(hn, ArrSort(SInt, ArrSort(SInt, un.u.SortOf(sl.Elem()))))
		return []modEntry{{heap: hn, rows: true}}
	case strings.HasPrefix(m, "allelems(") && strings.HasSuffix(m, ")"):
		e, err := ParseExpr(m[9 : len(m)-1])
		if err != nil {
			f.fail("modifies %s: %v", m, err)
		}
		cv := f.eval(e, &evalCtx{env: env, cur: st, old: st})
		sl, ok := cv.Go.Underlying().(*types.Slice)
		if !ok {
			f.fail("modifies %s: not a slice", m)
		}
		hn := un.elemHeap(sl.Elem())
		un.heapInit(hn, ArrSort(SInt, ArrSort(SInt, un.u.SortOf(sl.Elem()))))
		return []modEntry{{heap: hn}}
	case strings.HasPrefix(m, "mapof(") && strings.HasSuffix(m, ")"):
		e, err := ParseExpr(m[6 : len(m)-1])
		if err != nil {
			f.fail("modifies %s: %v", m, err)
		}
		cv := f.eval(e, &evalCtx{env: env, cur: st, old: st})
		mt, ok := cv.Go.Underlying().(*types.Map)
		if !ok {
			f.fail("modifies %s: not a map", m)
		}
		dn, vn := un.mapHeaps(cv.Go)
		ks, vs := un.u.SortOf(mt.Key()), un.u.SortOf(mt.Elem())
		un.heapInit(dn, ArrSort(SInt, ArrSort(ks, SBool)))
		un.heapInit(vn, ArrSort(SInt, ArrSort(ks, vs)))
		return []modEntry{{heap: dn, ref: cv.T}, {heap: vn, ref: cv.T}}
	case strings.HasPrefix(m, "allfields(") && strings.HasSuffix(m, ")"):
		// every field (ghost fields included) of every object of the struct type of the expression
		e, err := ParseExpr(m[10 : len(m)-1])
		if err != nil {
			f.fail("modifies %s: %v", m, err)
		}
		gt := f.modTypeOf(e, env)
		if gt == nil {
			gt = f.eval(e, &evalCtx{env: env, cur: st, old: st}).Go
		}
		T, sty := derefStruct(gt)
		if sty == nil {
			f.fail("modifies %s: not a struct pointer", m)
		}
		var out []modEntry
		for _, fi := range un.sinfo(T).fields {
			hn := un.fieldHeap(T, fi.name)
			un.heapInit(hn, ArrSort(SInt, fi.sort))
			out = append(out, modEntry{heap: hn})
		}
		return out
	case strings.HasPrefix(m, "allmaps(") && strings.HasSuffix(m, ")"):
		e, err := ParseExpr(m[8 : len(m)-1])
		if err != nil {
			f.fail("modifies %s: %v", m, err)
		}
		gt := f.modTypeOf(e, env)
		if gt == nil {
			gt = f.eval(e, &evalCtx{env: env, cur: st, old: st}).Go
		}
		mt, ok := gt.Underlying().(*types.Map)
		if !ok {
			f.fail("modifies %s: not a map", m)
		}
		dn, vn := un.mapHeaps(gt)
		ks, vs := un.u.SortOf(mt.Key()), un.u.SortOf(mt.Elem())
		un.heapInit(dn, ArrSort(SInt, ArrSort(ks, SBool)))
		un.heapInit(vn, ArrSort(SInt, ArrSort(ks, vs)))
		return []modEntry{{heap: dn}, {heap: vn}}
	case strings.HasPrefix(m, "newmaps(") && strings.HasSuffix(m, ")"):
		// maps of the type of the expression that are allocated by the callee
		e, err := ParseExpr(m[8 : len(m)-1])
		if err != nil {
			f.fail("modifies %s: %v", m, err)
		}
		cv := f.eval(e, &evalCtx{env: env, cur: st, old: st})
		mt, ok := cv.Go.Underlying().(*types.Map)
		if !ok {
			f.fail("modifies %s: not a map", m)
		}
		dn, vn := un.mapHeaps(cv.Go)
		ks, vs := un.u.SortOf(mt.Key()), un.u.SortOf(mt.Elem())
		un.heapInit(dn, ArrSort(SInt, ArrSort(ks, SBool)))
		un.heapInit(vn, ArrSort(SInt, ArrSort(ks, vs)))
		return []modEntry{{heap: dn, rows: true}, {heap: vn, rows: true}}
	case strings.HasPrefix(m, "newobjs(") && strings.HasSuffix(m, ")"):
		// every field (ghost fields included) of the object itself and of objects of its type allocated by the callee
		e, err := ParseExpr(m[8 : len(m)-1])
		if err != nil {
			f.fail("modifies %s: %v", m, err)
		}
		if gt := f.modTypeOf(e, env); gt != nil {
			// newobjs(T): only objects of struct type T allocated by the callee
			T, sty := derefStruct(gt)
			if sty == nil {
				f.fail("modifies %s: not a struct type", m)
			}
			var out []modEntry
			for _, fi := range un.sinfo(T).fields {
				hn := un.fieldHeap(T, fi.name)
				un.heapInit(hn, ArrSort(SInt, fi.sort))
				out = append(out, modEntry{heap: hn, rows: true})
			}
			return out
		}
		cv := f.eval(e, &evalCtx{env: env, cur: st, old: st})
		T, sty := derefStruct(cv.Go)
		if sty == nil {
			f.fail("modifies %s: not a struct pointer", m)
		}
		var out []modEntry
		for _, fi := range un.sinfo(T).fields {
			hn := un.fieldHeap(T, fi.name)
			un.heapInit(hn, ArrSort(SInt, fi.sort))
			out = append(out, modEntry{heap: hn, ref: cv.T, rows: true})
		}
		return out
	case strings.HasPrefix(m, "fields(") && strings.HasSuffix(m, ")"):
		e, err := ParseExpr(m[7 : len(m)-1])
		if err != nil {
			f.fail("modifies %s: %v", m, err)
		}
		cv := f.eval(e, &evalCtx{env: env, cur: st, old: st})
		T, sty := derefStruct(cv.Go)
		if sty == nil {
			f.fail("modifies %s: not a struct pointer", m)
		}
		var out []modEntry
		for _, fi := range un.sinfo(T).fields {
			hn := un.fieldHeap(T, fi.name)
			un.heapInit(hn, ArrSort(SInt, fi.sort))
			out = append(out, modEntry{heap: hn, ref: cv.T})
		}
		return out
	}
	e, err := ParseExpr(m)
	if err != nil {
		f.fail("modifies %s: %v", m, err)
	}
	switch x := e.(type) {
	case EField:
		cv := f.eval(x.X, &evalCtx{env: env, cur: st, old: st})
		if cv.LV != nil {
			f.fail("modifies %s: through an interior pointer is not supported", m)
		}
		T, sty := derefStruct(cv.Go)
		if sty == nil {
			f.fail("modifies %s: %v is not a struct pointer", m, cv.Go)
		}
		si := un.sinfo(T)
		idx := si.fieldIndex(x.Name)
		if idx < 0 {
			f.fail("modifies %s: no field %s", m, x.Name)
		}
		hn := un.fieldHeap(T, x.Name)
		un.heapInit(hn, ArrSort(SInt, si.fields[idx].sort))
		return []modEntry{{heap: hn, ref: cv.T}}
	case EUnary:
		if x.Op == "*" {
			cv := f.eval(x.X, &evalCtx{env: env, cur: st, old: st})
			lv := cv.LV
			if lv == nil {
				lv = un.lvOfPointer(cv.T, cv.Go)
			}
			switch lv.Kind {
			case lvCell:
				un.heapInit(lv.Heap, ArrSort(SInt, un.u.SortOf(lv.Root)))
				return []modEntry{{heap: lv.Heap, ref: lv.Ref}}
			case lvObj:
				if len(lv.Path) > 0 {
					fi := un.sinfo(lv.Root).fields[lv.Path[0]]
					hn := un.fieldHeap(lv.Root, fi.name)
					un.heapInit(hn, ArrSort(SInt, fi.sort))
					return []modEntry{{heap: hn, ref: lv.Ref}}
				}
				var out []modEntry
				for _, fi := range un.sinfo(lv.Root).fields {
					hn := un.fieldHeap(lv.Root, fi.name)
					un.heapInit(hn, ArrSort(SInt, fi.sort))
					out = append(out, modEntry{heap: hn, ref: lv.Ref})
				}
				return out
			case lvLocal:
				return []modEntry{{heap: lv.Heap}}
			case lvElem:
				return []modEntry{{heap: lv.Heap, ref: lv.Ref}}
			}
		}
	}
	// a captured variable (free variable of a closure): the cell it lives in
	if id, ok := e.(EIdent); ok {
		if v, ok := env[id.Name]; ok && v.LVSelf != nil {
			lv := v.LVSelf
			switch lv.Kind {
			case lvCell:
				un.heapInit(lv.Heap, ArrSort(SInt, un.u.SortOf(lv.Root)))
				return []modEntry{{heap: lv.Heap, ref: lv.Ref}}
			case lvLocal:
				return []modEntry{{heap: lv.Heap}}
			case lvObj:
				var out []modEntry
				if len(lv.Path) > 0 {
					fi := un.sinfo(lv.Root).fields[lv.Path[0]]
					hn := un.fieldHeap(lv.Root, fi.name)
					un.heapInit(hn, ArrSort(SInt, fi.sort))
					return []modEntry{{heap: hn, ref: lv.Ref}}
				}
				for _, fi := range un.sinfo(lv.Root).fields {
					hn := un.fieldHeap(lv.Root, fi.name)
					un.heapInit(hn, ArrSort(SInt, fi.sort))
					out = append(out, modEntry{heap: hn, ref: lv.Ref})
				}
				return out
			}
		}
	}
	f.fail("unsupported modifies entry %q", m)
	return nil
}

// ---------------------------------------------------------------------------------------
// defers

func (f *Frame) runDefers(st *State) {
	un := f.un
	for i := len(f.defers) - 1; i >= 0; i-- {
		d := f.defers[i]
		flag, ok := st.H[d.key]
		if !ok || flag.S == "false" {
			continue
		}
		run := func(s *State) {
			if b, ok := d.call.Value.(*ssa.Builtin); ok {
				f.builtin(b, d.call, d.args, nil, s)
				return
			}
			f.applyCall(d.call, d.fnv, d.args, s, d.pos)
		}
		if flag.S == "true" {
			run(st)
			continue
		}
		yes, no := st.clone(), st.clone()
		yes.R = un.define("E", And(st.R, flag))
		no.R = un.define("E", And(st.R, Not(flag)))
		run(&yes)
		yes.R = un.define("E", yes.R)
		*st = un.mergeStates([]State{yes, no})
	}
}

// ---------------------------------------------------------------------------------------
// builtins

func (f *Frame) builtin(b *ssa.Builtin, c *ssa.CallCommon, args []Val, at ssa.Instruction, st *State) Val {
	un := f.un
	u := un.u
	switch b.Name() {
	case "len":
		x := args[0]
		switch t := c.Args[0].Type().Underlying().(type) {
		case *types.Slice:
			return Val{T: SLen(x.T)}
		case *types.Basic:
			return Val{T: mk(SInt, "strlen", x.T)}
		case *types.Map:
			dn, _ := un.mapHeaps(c.Args[0].Type())
			ks := u.SortOf(t.Key())
			d := un.H(st, dn, ArrSort(SInt, ArrSort(ks, SBool)))
			return Val{T: un.eng.card(ks, Ite(Eq(x.T, IntLit(0)), ConstArr(ArrSort(ks, SBool), tFalse), Select(d, x.T)))}
		case *types.Chan:
			r := un.fresh("chanlen", SInt)
			un.assume(st, Ge(r, IntLit(0)))
			return Val{T: r}
		case *types.Pointer:
			return Val{T: IntLit(t.Elem().Underlying().(*types.Array).Len())}
		case *types.Array:
			return Val{T: IntLit(t.Len())}
		}
	case "cap":
		if _, ok := c.Args[0].Type().Underlying().(*types.Slice); ok {
			return Val{T: SCap(args[0].T)}
		}
		r := un.fresh("cap", SInt)
		un.assume(st, Ge(r, IntLit(0)))
		return Val{T: r}
	case "append":
		return f.appendBuiltin(c, args, st)
	case "copy":
		return f.copyBuiltin(c, args, st)
	case "delete":
		if at != nil {
			f.needLock(args[0].G, 2, st, at, "map delete")
		}
		f.mapStore(c.Args[0].Type(), args[0].T, args[1].T, nil, st)
		return Val{}
	case "recover":
		return Val{T: nilIface}
	case "close", "print", "println":
		return Val{}
	case "min", "max":
		r := args[0].T
		for _, a := range args[1:] {
			if b.Name() == "min" {
				r = Ite(Le(a.T, r), a.T, r)
			} else {
				r = Ite(Ge(a.T, r), a.T, r)
			}
		}
		return Val{T: r}
	}
	f.fail("builtin %s on %v", b.Name(), c.Args[0].Type())
	return Val{}
}

// literalVarargs recognises `new [k]T (varargs)` sliced in full, the shape the SSA builder
// produces for append(s, a, b) and []T{a, b}.
func literalVarargs(v ssa.Value) (int64, bool) {
	sl, ok := v.(*ssa.Slice)
	if !ok || sl.Low != nil || sl.High != nil {
		return 0, false
	}
	al, ok := sl.X.(*ssa.Alloc)
	if !ok {
		return 0, false
	}
	at, ok := al.Type().Underlying().(*types.Pointer).Elem().Underlying().(*types.Array)
	if !ok || at.Len() > 4 {
		return 0, false
	}
	return at.Len(), true
}

func (f *Frame) appendBuiltin(c *ssa.CallCommon, args []Val, st *State) Val {
	un := f.un
	u := un.u
	s1, s2 := args[0].T, args[1].T
	el := c.Args[0].Type().Underlying().(*types.Slice).Elem()
	es := u.SortOf(el)
	rowS := ArrSort(SInt, es)
	hn := un.elemHeap(el)
	h := un.H(st, hn, ArrSort(SInt, rowS))
	l1 := SLen(s1)
	var n Term
	srcAt := func(j Term) Term { return tTrue }
	fromString := isString(c.Args[1].Type())
	if fromString {
		n = mk(SInt, "strlen", s2)
		srcAt = func(j Term) Term { return mk(SInt, "strat", s2, j) }
	} else {
		n = SLen(s2)
		row2a := un.define("srcrow", Select(h, SBase(s2)))
		srcAt = func(j Term) Term { return Select(row2a, Add(SOff(s2), j)) }
	}
	newlen := un.define("newlen", Add(l1, n))
	fits := un.define("fits", Le(newlen, SCap(s1)))
	row1 := un.define("row1", Select(h, SBase(s1)))
	off1 := SOff(s1)
	i := Term{"i", SInt}
	kk := Term{"k", SInt}
	k, lit := int64(0), false
	if !fromString {
		k, lit = literalVarargs(c.Args[1])
	}
	var row2, off2 Term
	if !fromString {
		row2 = un.define("srcrow", Select(h, SBase(s2)))
		off2 = SOff(s2)
	}
	start := un.define("start", Add(off1, l1))
	// in place
	var rowIn Term
	if lit {
		rowIn = row1
		for j := int64(0); j < k; j++ {
			rowIn = Store(rowIn, Add(start, IntLit(j)), srcAt(IntLit(j)))
		}
		rowIn = un.define("rowIn", rowIn)
	} else {
		rowIn = un.fresh("rowIn", rowS)
		body := Eq(Select(rowIn, i), Ite(And(Le(start, i), Lt(i, Add(start, n))), srcAt(Sub(i, start)), Select(row1, i)))
		un.assume(st, quant("forall", []Term{i}, body, [][]Term{{Select(rowIn, i)}, {Select(row1, i)}}))
		if !fromString {
			// reads of the source create the corresponding reads of the result
			un.assume(st, quant("forall", []Term{kk}, Implies(And(Le(off2, kk), Lt(kk, Add(off2, n))),
				And(Eq(Select(rowIn, Add(start, Sub(kk, off2))), Select(row2, kk)), Ix(Add(start, Sub(kk, off2))))), [][]Term{{Select(row2, kk)}}))
		}
	}
	// reallocate
	nb := un.allocRef(st, "appendbase")
	capN := un.fresh("newcap", SInt)
	un.assume(st, And(Ge(capN, newlen), Le(capN, IntLitS("1152921504606846976"))))
	rowNew := un.fresh("rowNew", rowS)
	un.assume(st, quant("forall", []Term{kk}, Implies(And(Le(off1, kk), Lt(kk, start)), And(Eq(Select(rowNew, Sub(kk, off1)), Select(row1, kk)), Ix(Sub(kk, off1)))), [][]Term{{Select(row1, kk)}}))
	if lit {
		un.assume(st, Forall([]Term{i}, Implies(And(Le(IntLit(0), i), Lt(i, l1)), Eq(Select(rowNew, i), Select(row1, Add(off1, i)))), Select(rowNew, i)))
		for j := int64(0); j < k; j++ {
			un.assume(st, Eq(Select(rowNew, Add(l1, IntLit(j))), srcAt(IntLit(j))))
		}
	} else {
		un.assume(st, Forall([]Term{i}, Implies(And(Le(IntLit(0), i), Lt(i, newlen)), Eq(Select(rowNew, i),
			Ite(Lt(i, l1), Select(row1, Add(off1, i)), srcAt(Sub(i, l1))))), Select(rowNew, i)))
		if !fromString {
			un.assume(st, quant("forall", []Term{kk}, Implies(And(Le(off2, kk), Lt(kk, Add(off2, n))),
				And(Eq(Select(rowNew, Add(l1, Sub(kk, off2))), Select(row2, kk)), Ix(Add(l1, Sub(kk, off2))))), [][]Term{{Select(row2, kk)}}))
		}
	}
	hIn := Store(h, SBase(s1), rowIn)
	hNew := Store(h, nb, rowNew)
	un.setH(st, hn, Ite(fits, hIn, hNew))
	res := un.define("appended", Ite(fits, SliceMk(SBase(s1), off1, newlen, SCap(s1)), SliceMk(nb, IntLit(0), newlen, capN)))
	return Val{T: res, Go: c.Args[0].Type()}
}

func (f *Frame) copyBuiltin(c *ssa.CallCommon, args []Val, st *State) Val {
	un := f.un
	u := un.u
	d, s := args[0].T, args[1].T
	el := c.Args[0].Type().Underlying().(*types.Slice).Elem()
	es := u.SortOf(el)
	rowS := ArrSort(SInt, es)
	hn := un.elemHeap(el)
	h := un.H(st, hn, ArrSort(SInt, rowS))
	var sl Term
	var srcAt func(j Term) Term
	if isString(c.Args[1].Type()) {
		sl = mk(SInt, "strlen", s)
		srcAt = func(j Term) Term { return mk(SInt, "strat", s, j) }
	} else {
		sl = SLen(s)
		row2 := un.define("srcrow", Select(h, SBase(s)))
		srcAt = func(j Term) Term { return Select(row2, Add(SOff(s), j)) }
	}
	n := un.define("ncopy", Ite(Le(SLen(d), sl), SLen(d), sl))
	rowD := un.define("rowD", Select(h, SBase(d)))
	rowN := un.fresh("rowCopy", rowS)
	i := Term{"i", SInt}
	offd := SOff(d)
	un.assume(st, Forall([]Term{i}, Eq(Select(rowN, i), Ite(And(Le(offd, i), Lt(i, Add(offd, n))), srcAt(Sub(i, offd)), Select(rowD, i))), Select(rowN, i)))
	un.setH(st, hn, Ite(Gt(n, IntLit(0)), Store(h, SBase(d), rowN), h))
	return Val{T: n, Go: types.Typ[types.Int]}
}

// headerEnv binds the parameter names written in a contract header to the call's arguments.
func (f *Frame) headerEnv(ct *Contract, fnWithRecv *ssa.Function, args []Val) map[string]Val {
	env := map[string]Val{}
	off := 0
	if fnWithRecv != nil {
		off = 1
	}
	if len(ct.Params) != len(args)-off {
		f.fail("callsite %s -> %s: header names %d parameters, call passes %d", ct.Caller, ct.Name, len(ct.Params), len(args)-off)
	}
	for i, p := range ct.Params {
		env[p.Name] = args[i+off]
	}
	return env
}

// goCall: at `go f(args)` the preconditions of f (and the callsite contracts) must hold; `records` bookkeeping
// is applied; nothing else of f is modelled in the spawner.
func (f *Frame) goCall(x *ssa.Go, st *State) {
	c := &x.Call
	var fn *ssa.Function
	var bind []Val
	if sc := c.StaticCallee(); sc != nil {
		fn = sc
		if mc, ok := c.Value.(*ssa.MakeClosure); ok {
			bind = f.val(mc, st).Clo.Bind
		}
	} else if !c.IsInvoke() {
		if v := f.val(c.Value, st); v.Clo != nil {
			fn, bind = v.Clo.Fn, v.Clo.Bind
		}
	}
	if fn == nil {
		return
	}
	ct := f.un.eng.contractFor(fn)
	if ct == nil {
		return
	}
	var args []Val
	for _, a := range c.Args {
		args = append(args, f.val(a, st))
	}
	name := fn.String()
	env := f.contractEnv(ct, fn, args, bind, st)
	un := f.un
	for _, sc := range un.eng.callsites[f.topFn().String()+"|"+name] {
		senv := map[string]Val{}
		if f.parent == nil && f.curBlock != nil {
			for k, v := range f.baseEnv(f.curBlock, st) {
				senv[k] = v
			}
		}
		var hfn *ssa.Function
		if fn.Signature.Recv() != nil && len(sc.Params) == len(args)-1 {
			hfn = fn
		}
		for k, v := range f.headerEnv(sc, hfn, args) {
			senv[k] = v
		}
		for _, rq := range sc.Requires {
			g := f.evalClause(rq, senv, st, &f.top().entry)
			un.obligeNamed(st, fmt.Sprintf("site:go %s#%s@%s", shortFn(name), rq.label(), un.siteTag("go:"+name, x.Pos())), "callsite", rq.Text, un.posOf(x.Pos()), g)
		}
	}
	for _, rq := range ct.Requires {
		g := f.evalClause(rq, env, st, st)
		un.obligeNamed(st, fmt.Sprintf("pre:go %s#%s@%s", shortFn(name), rq.label(), un.siteTag("go:"+name, x.Pos())), "precondition", rq.Text, un.posOf(x.Pos()), g)
	}
	old := st.clone()
	f.applyRecords(ct, env, st, &old)
}

func (f *Frame) top() *Frame {
	fr := f
	for fr.parent != nil {
		fr = fr.parent
	}
	return fr
}

func (f *Frame) topFn() *ssa.Function { return f.top().fn }

// deferRecovers: the deferred call is a closure whose body calls recover().
func deferRecovers(d deferred) bool {
	var fn *ssa.Function
	if mc, ok := d.call.Value.(*ssa.MakeClosure); ok {
		fn, _ = mc.Fn.(*ssa.Function)
	} else if sc := d.call.StaticCallee(); sc != nil {
		fn = sc
	}
	if fn == nil {
		return false
	}
	for _, b := range fn.Blocks {
		for _, ins := range b.Instrs {
			if c, ok := ins.(*ssa.Call); ok {
				if bi, ok := c.Call.Value.(*ssa.Builtin); ok && bi.Name() == "recover" {
					return true
				}
			}
		}
	}
	return false
}

// partSuffix names the independently proved parts of one clause: "", or ".1", ".2", ...
func partSuffix(i, n int) string {
	if n <= 1 {
		return ""
	}
	return fmt.Sprintf(".%d", i+1)
}
