package main

import (
	"fmt"
	"go/token"
	"go/types"
	"strings"

	"golang.org/x/tools/go/ssa"
)

// instr translates one instruction; returns true if the block ends here (return / panic).
func (f *Frame) instr(ins ssa.Instruction, st *State) bool {
	un := f.un
	u := un.u
	switch x := ins.(type) {
	case *ssa.DebugRef, *ssa.If, *ssa.Jump:
		return false
	case *ssa.Alloc:
		f.alloc(x, st)
	case *ssa.FieldAddr:
		base := f.addrOfStructPtr(x.X, st, x.Pos())
		T, sty := derefStruct(x.X.Type())
		_ = sty
		var root types.Type = T
		if len(base.Path) > 0 || base.Kind != lvObj {
			root = base.Root
		}
		lv := &LVal{Kind: base.Kind, Heap: base.Heap, Ref: base.Ref, Idx: base.Idx, Root: root,
			Path: append(append([]int{}, base.Path...), x.Field), Typ: sty.Field(x.Field).Type()}
		f.vals[x] = Val{LV: lv, Go: x.Type()}
	case *ssa.Field:
		v := f.term(x.X, st)
		f.vals[x] = Val{T: un.define(x.Name(), u.GetField(v, x.Field)), Go: x.Type()}
	case *ssa.IndexAddr:
		idx := f.term(x.Index, st)
		switch xt := x.X.Type().Underlying().(type) {
		case *types.Slice:
			s := f.term(x.X, st)
			f.safety(st, "index", x, And(Le(IntLit(0), idx), Lt(idx, SLen(s))))
			lv := &LVal{Kind: lvElem, Heap: un.elemHeap(xt.Elem()), Ref: SBase(s), Idx: un.define("i", Add(SOff(s), idx)), Root: xt.Elem(), Typ: xt.Elem()}
			un.assume(st, Ix(lv.Idx))
			un.heapInit(lv.Heap, ArrSort(SInt, ArrSort(SInt, u.SortOf(xt.Elem()))))
			lv.G = f.val(x.X, st).G
			f.vals[x] = Val{LV: lv, Go: x.Type()}
		case *types.Pointer:
			at := xt.Elem().Underlying().(*types.Array)
			p := f.val(x.X, st)
			if p.LV != nil && p.T.S == "" {
				f.fail("index of array nested in a struct")
			}
			f.safety(st, "nil", x, Neq(p.T, IntLit(0)))
			f.safety(st, "index", x, And(Le(IntLit(0), idx), Lt(idx, IntLit(at.Len()))))
			lv := &LVal{Kind: lvElem, Heap: un.elemHeap(at.Elem()), Ref: p.T, Idx: idx, Root: at.Elem(), Typ: at.Elem()}
			un.heapInit(lv.Heap, ArrSort(SInt, ArrSort(SInt, u.SortOf(at.Elem()))))
			f.vals[x] = Val{LV: lv, Go: x.Type()}
		default:
			f.fail("IndexAddr on %v", x.X.Type())
		}
	case *ssa.Index:
		idx := f.term(x.Index, st)
		switch xt := x.X.Type().Underlying().(type) {
		case *types.Basic: // string
			s := f.term(x.X, st)
			f.safety(st, "index", x, And(Le(IntLit(0), idx), Lt(idx, mk(SInt, "strlen", s))))
			f.vals[x] = Val{T: mk(SInt, "strat", s, idx), Go: x.Type()}
		default:
			_ = xt
			f.fail("Index on array value %v", x.X.Type())
		}
	case *ssa.Store:
		lv := f.addr(x.Addr, st)
		f.nilCheck(lv, st, x, x.Pos())
		f.needLock(f.guardOf(lv), 2, st, x, "write of "+lvDesc(lv))
		v := f.val(x.Val, st)
		if v.T.S == "" {
			if v.Clo != nil {
				v.T = un.eng.funcRef(v.Clo.Fn)
			} else {
				f.fail("store of non-first-class value %s", x.Val.Name())
			}
		}
		if lv.Kind == lvCell && isContextType(x.Val.Type()) && un.eng.specFuns["has_logger"] != nil {
			// invariant of captured context variables (A-LOGGER, narrowed): what is stored in one carries the logger; assumed at every load
			un.eng.declareUF("has_logger", []Sort{v.T.Sort}, SBool)
			f.safety(st, "ctxcell", x, mk(SBool, "uf_has_logger", v.T))
		}
		un.writeLV(lv, st, v.T)
	case *ssa.UnOp:
		f.unop(x, st)
	case *ssa.BinOp:
		f.binop(x, st)
	case *ssa.Convert:
		f.convert(x, st)
	case *ssa.ChangeType:
		v := f.val(x.X, st)
		v.Go = x.Type()
		f.vals[x] = v
	case *ssa.ChangeInterface:
		v := f.val(x.X, st)
		v.Go = x.Type()
		f.vals[x] = v // Dyn is kept
	case *ssa.MakeInterface:
		v := f.val(x.X, st)
		if v.T.S == "" && v.Clo != nil {
			v.T = un.eng.funcRef(v.Clo.Fn)
		}
		if v.T.S == "" && v.LV != nil {
			// an interior pointer stored in an interface (heap.Push(&pq.pq, x)): opaque value, location kept
			f.vals[x] = Val{T: un.fresh("ifaceOfLoc", SIface), LV: v.LV, Go: x.Type(), Dyn: x.X.Type()}
			return false
		}
		if v.T.S == "" {
			f.fail("MakeInterface of non-first-class value")
		}
		it := un.define(x.Name(), IfaceMk(u.TypeTag(x.X.Type()), u.Box(v.T)))
		un.ifacePay[it.S] = v.T
		f.vals[x] = Val{T: it, Go: x.Type(), Dyn: x.X.Type()}
	case *ssa.TypeAssert:
		f.typeAssert(x, st)
	case *ssa.Extract:
		t := f.val(x.Tuple, st)
		if x.Index >= len(t.Tup) {
			f.fail("extract out of range")
		}
		f.vals[x] = t.Tup[x.Index]
	case *ssa.Slice:
		f.slice(x, st)
	case *ssa.MakeSlice:
		ln := f.term(x.Len, st)
		cp := f.term(x.Cap, st)
		f.safety(st, "makeslice", x, And(Le(IntLit(0), ln), Le(ln, cp)))
		el := x.Type().Underlying().(*types.Slice).Elem()
		base := un.allocRef(st, "mkslice")
		hn := un.elemHeap(el)
		es := u.SortOf(el)
		h := un.H(st, hn, ArrSort(SInt, ArrSort(SInt, es)))
		un.setH(st, hn, Store(h, base, ConstArr(ArrSort(SInt, es), u.Zero(es))))
		f.vals[x] = Val{T: un.define(x.Name(), SliceMk(base, IntLit(0), ln, cp)), Go: x.Type()}
	case *ssa.MakeMap:
		r := un.allocRef(st, "mkmap")
		mt := x.Type().Underlying().(*types.Map)
		dn, _ := un.mapHeaps(x.Type())
		ks := u.SortOf(mt.Key())
		d := un.H(st, dn, ArrSort(SInt, ArrSort(ks, SBool)))
		un.setH(st, dn, Store(d, r, ConstArr(ArrSort(ks, SBool), tFalse)))
		f.vals[x] = Val{T: r, Go: x.Type()}
	case *ssa.MakeChan:
		f.vals[x] = Val{T: un.allocRef(st, "mkchan"), Go: x.Type()}
		f.runGhostHooks("makechan", map[string]Val{"size": f.val(x.Size, st), "result": f.vals[x]}, st)
	case *ssa.MakeClosure:
		var bind []Val
		for _, b := range x.Bindings {
			bind = append(bind, f.val(b, st))
		}
		fn := x.Fn.(*ssa.Function)
		f.vals[x] = Val{Clo: &Closure{Fn: fn, Bind: bind}, T: un.allocRef(st, "closure"), Go: x.Type()}
		f.closurePreconditions(fn, bind, st, x.Pos())
	case *ssa.Lookup:
		f.lookup(x, st)
	case *ssa.MapUpdate:
		m := f.term(x.Map, st)
		k := f.term(x.Key, st)
		v := f.term(x.Value, st)
		f.safety(st, "nilmap", x, Neq(m, IntLit(0)))
		f.needLock(f.val(x.Map, st).G, 2, st, x, "map update")
		f.mapStore(x.Map.Type(), m, k, &v, st)
		f.runGhostHooks("mapupdate", map[string]Val{"updated_map": f.val(x.Map, st), "updated_key": f.val(x.Key, st), "updated_value": f.val(x.Value, st)}, st)
	case *ssa.Range:
		f.rangeStart(x, st)
	case *ssa.Next:
		f.rangeNext(x, st)
	case *ssa.Call:
		res := f.call(&x.Call, x, st, x.Pos())
		res.Go = x.Type()
		f.vals[x] = res
		if sc := x.Call.StaticCallee(); sc != nil {
			extra := map[string]Val{"result": res}
			for i, a := range x.Call.Args {
				extra[fmt.Sprintf("arg%d", i)] = f.val(a, st)
			}
			f.runGhostHooks("call:"+sc.String(), extra, st)
		} else if x.Call.IsInvoke() {
			extra := map[string]Val{"result": res}
			for i, a := range x.Call.Args {
				extra[fmt.Sprintf("arg%d", i)] = f.val(a, st)
			}
			f.runGhostHooks("call:("+types.TypeString(x.Call.Value.Type(), nil)+")."+x.Call.Method.Name(), extra, st)
		} else if pv, ok := x.Call.Value.(*ssa.Parameter); ok {
			extra := map[string]Val{"result": res}
			for i, a := range x.Call.Args {
				extra[fmt.Sprintf("arg%d", i)] = f.val(a, st)
				// arg<i>_owner: the object whose field is passed (x.f as an argument)
				if ld, ok := a.(*ssa.UnOp); ok {
					if fa, ok := ld.X.(*ssa.FieldAddr); ok {
						if ov, ok := f.vals[fa.X]; ok && ov.T.S != "" {
							extra[fmt.Sprintf("arg%d_owner", i)] = Val{T: ov.T, Go: fa.X.Type()}
						}
					}
				}
			}
			f.runGhostHooks("callparam:"+pv.Name(), extra, st)
		} else if b, ok := x.Call.Value.(*ssa.Builtin); ok && b.Name() == "delete" {
			f.runGhostHooks("delete", map[string]Val{"deleted_map": f.val(x.Call.Args[0], st), "deleted_key": f.val(x.Call.Args[1], st)}, st)
		} else if b, ok := x.Call.Value.(*ssa.Builtin); ok && b.Name() == "append" {
			f.runGhostHooks("append", map[string]Val{"appended_to": f.val(x.Call.Args[0], st), "result": res}, st)
		}
	case *ssa.Defer:
		d := deferred{call: &x.Call, pos: x.Pos()}
		for _, a := range x.Call.Args {
			d.args = append(d.args, f.val(a, st))
		}
		if x.Call.IsInvoke() || x.Call.StaticCallee() == nil {
			d.fnv = f.val(x.Call.Value, st)
		} else if mc, ok := x.Call.Value.(*ssa.MakeClosure); ok {
			d.fnv = f.val(mc, st)
		}
		un.nlocal++
		d.key = fmt.Sprintf("$defer%d", un.nlocal)
		un.setH(st, d.key, tTrue)
		f.defers = append(f.defers, d)
	case *ssa.RunDefers:
		f.runDefers(st)
	case *ssa.Go:
		un.note("go statement in " + f.fn.Name() + ": the spawned function runs concurrently and is not executed in the spawner (A-SEQ); its preconditions are checked at the go statement")
		f.goCall(x, st)
	case *ssa.Send:
		f.chanSend(x, st)
	case *ssa.Select:
		f.selectInstr(x, st)
	case *ssa.Return:
		var vals []Val
		for _, r := range x.Results {
			vals = append(vals, f.val(r, st))
		}
		rp := x.Pos()
		if !rp.IsValid() {
			rp = f.nearPos(x)
		}
		f.rets = append(f.rets, retInfo{st.clone(), vals, un.posOf(rp)})
		return true
	case *ssa.Panic:
		if !f.pure {
			un.oblige(st, "panic", "explicit panic", x.Pos(), tFalse, true)
		}
		return true
	default:
		f.fail("unsupported instruction %T in %s", ins, f.fn.Name())
	}
	return false
}

func (f *Frame) safety(st *State, kind string, at ssa.Instruction, goal Term) {
	if f.pure {
		f.un.assume(st, goal)
		return
	}
	txt := ""
	if v, ok := at.(ssa.Value); ok {
		txt = v.Name() + " = " + at.String()
	} else {
		txt = at.String()
	}
	pos := at.Pos()
	if !pos.IsValid() {
		pos = f.nearPos(at)
	}
	f.un.oblige(st, kind, txt, pos, goal, true)
}

func (f *Frame) nearPos(at ssa.Instruction) token.Pos {
	b := at.Block()
	for _, i := range b.Instrs {
		if i.Pos().IsValid() {
			return i.Pos()
		}
	}
	return f.fn.Pos()
}

func (f *Frame) nilCheck(lv *LVal, st *State, at ssa.Instruction, pos token.Pos) {
	switch lv.Kind {
	case lvObj, lvCell:
		f.safety(st, "nil", at, Neq(lv.Ref, IntLit(0)))
	}
}

func (f *Frame) alloc(x *ssa.Alloc, st *State) {
	un := f.un
	u := un.u
	el := x.Type().Underlying().(*types.Pointer).Elem()
	if at, ok := el.Underlying().(*types.Array); ok {
		base := un.allocRef(st, "arr")
		hn := un.elemHeap(at.Elem())
		es := u.SortOf(at.Elem())
		h := un.H(st, hn, ArrSort(SInt, ArrSort(SInt, es)))
		un.setH(st, hn, Store(h, base, ConstArr(ArrSort(SInt, es), u.Zero(es))))
		f.vals[x] = Val{T: base, Go: x.Type()}
		return
	}
	if !x.Heap {
		un.nlocal++
		key := fmt.Sprintf("L%d_%s", un.nlocal, sanitize(x.Comment))
		lv := &LVal{Kind: lvLocal, Heap: key, Root: el, Typ: el}
		un.setH(st, key, u.Zero(u.SortOf(el)))
		f.vals[x] = Val{LV: lv, Go: x.Type()}
		return
	}
	r := un.allocRef(st, "new_"+x.Comment)
	un.freshRefs[r.S] = true
	if _, ok := el.Underlying().(*types.Struct); ok {
		lv := &LVal{Kind: lvObj, Ref: r, Root: el, Typ: el}
		un.writeLV(lv, st, u.Zero(u.SortOf(el)))
	} else {
		lv := &LVal{Kind: lvCell, Heap: un.cellHeap(el), Ref: r, Root: el, Typ: el}
		un.writeLV(lv, st, u.Zero(u.SortOf(el)))
	}
	f.vals[x] = Val{T: r, Go: x.Type()}
}

// addrOfStructPtr: location of the struct that x (a pointer to struct) points to.
func (f *Frame) addrOfStructPtr(x ssa.Value, st *State, pos token.Pos) *LVal {
	v := f.val(x, st)
	if v.LV != nil {
		return v.LV
	}
	lv := f.un.lvOfPointer(v.T, x.Type())
	if !f.pure {
		f.un.oblige(st, "nil", "field access through "+x.Name(), pos, Neq(v.T, IntLit(0)), true)
	} else {
		f.un.assume(st, Neq(v.T, IntLit(0)))
	}
	return lv
}

func (f *Frame) unop(x *ssa.UnOp, st *State) {
	un := f.un
	switch x.Op {
	case token.MUL: // load
		if g, ok := x.X.(*ssa.Global); ok {
			if t, ok := un.eng.globalConst(un, g); ok {
				f.vals[x] = Val{T: t, Go: x.Type()}
				return
			}
		}
		lv := f.addr(x.X, st)
		f.nilCheck(lv, st, x, x.Pos())
		g := f.guardOf(lv)
		f.needLock(g, 1, st, x, "read of "+lvDesc(lv))
		v := un.define(x.Name(), un.readLV(lv, st))
		un.assume(st, un.typeFacts(x.Type(), v, st, 0))
		if lv.Kind == lvCell && isContextType(x.Type()) && un.eng.specFuns["has_logger"] != nil {
			un.eng.declareUF("has_logger", []Sort{v.Sort}, SBool)
			un.assume(st, mk(SBool, "uf_has_logger", v))
		}
		f.vals[x] = Val{T: v, Go: x.Type(), G: g}
	case token.NOT:
		f.vals[x] = Val{T: Not(f.term(x.X, st)), Go: x.Type()}
	case token.SUB:
		v := f.term(x.X, st)
		r := mk(SInt, "-", v)
		f.overflow(x, r, st)
		f.vals[x] = Val{T: r, Go: x.Type()}
	case token.ARROW:
		f.chanRecv(x, st)
	case token.XOR:
		f.vals[x] = Val{T: un.fresh("bitnot", SInt), Go: x.Type()}
	default:
		f.fail("unop %v", x.Op)
	}
}

func (f *Frame) overflow(x ssa.Value, r Term, st *State) {
	b, ok := x.Type().Underlying().(*types.Basic)
	if !ok {
		return
	}
	lo, hi, ok := intRange(b)
	if !ok {
		return
	}
	ins := x.(ssa.Instruction)
	f.safety(st, "overflow", ins, And(Le(IntLitS(lo), r), Le(r, IntLitS(hi))))
}

func isString(t types.Type) bool {
	b, ok := t.Underlying().(*types.Basic)
	return ok && b.Info()&types.IsString != 0
}
func isFloat(t types.Type) bool {
	b, ok := t.Underlying().(*types.Basic)
	return ok && b.Info()&(types.IsFloat|types.IsComplex) != 0
}
func isUnsigned(t types.Type) bool {
	b, ok := t.Underlying().(*types.Basic)
	return ok && b.Info()&types.IsUnsigned != 0
}

func (f *Frame) binop(x *ssa.BinOp, st *State) {
	un := f.un
	a := f.val(x.X, st)
	b := f.val(x.Y, st)
	if a.T.S == "" || b.T.S == "" {
		// comparison of func values with nil etc.
		if a.T.S == "" && a.Clo != nil {
			a.T = un.eng.funcRef(a.Clo.Fn)
		}
		if b.T.S == "" && b.Clo != nil {
			b.T = un.eng.funcRef(b.Clo.Fn)
		}
		if a.T.S == "" || b.T.S == "" {
			f.fail("binop on non-first-class values")
		}
	}
	ty := x.X.Type()
	var r Term
	switch x.Op {
	case token.EQL:
		r = f.equal(a.T, b.T, ty)
	case token.NEQ:
		r = Not(f.equal(a.T, b.T, ty))
	case token.LSS, token.LEQ, token.GTR, token.GEQ:
		l, rr := a.T, b.T
		if isString(ty) {
			l, rr = mk(SInt, "strcmp", a.T, b.T), IntLit(0)
		}
		switch x.Op {
		case token.LSS:
			r = Lt(l, rr)
		case token.LEQ:
			r = Le(l, rr)
		case token.GTR:
			r = Gt(l, rr)
		default:
			r = Ge(l, rr)
		}
	case token.ADD:
		if isString(ty) {
			r = mk(SStr, "strcat", a.T, b.T)
			un.eng.needStrcat = true
		} else if isFloat(ty) {
			r = un.fresh("fadd", SInt)
		} else {
			r = Add(a.T, b.T)
			f.overflow(x, r, st)
		}
	case token.SUB:
		if isFloat(ty) {
			r = un.fresh("fsub", SInt)
		} else {
			r = Sub(a.T, b.T)
			f.overflow(x, r, st)
		}
	case token.MUL:
		if isFloat(ty) {
			r = un.fresh("fmul", SInt)
		} else {
			r = Mul(a.T, b.T)
			f.overflow(x, r, st)
		}
	case token.QUO:
		if isFloat(ty) {
			r = un.fresh("fdiv", SInt)
		} else {
			f.safety(st, "divzero", x, Neq(b.T, IntLit(0)))
			r = Ite(Ge(a.T, IntLit(0)), mk(SInt, "div", a.T, mk(SInt, "abs", b.T)), mk(SInt, "-", mk(SInt, "div", mk(SInt, "-", a.T), mk(SInt, "abs", b.T))))
			r = Ite(Ge(b.T, IntLit(0)), r, mk(SInt, "-", r))
		}
	case token.REM:
		f.safety(st, "divzero", x, Neq(b.T, IntLit(0)))
		r = Ite(Ge(a.T, IntLit(0)), mk(SInt, "mod", a.T, b.T), mk(SInt, "-", mk(SInt, "mod", mk(SInt, "-", a.T), b.T)))
	case token.SHL, token.SHR, token.AND, token.OR, token.XOR, token.AND_NOT:
		r = f.bitop(x, a.T, b.T, st)
	default:
		f.fail("binop %v", x.Op)
	}
	f.vals[x] = Val{T: un.define(x.Name(), r), Go: x.Type()}
}

func constInt(v ssa.Value) (int64, bool) {
	c, ok := v.(*ssa.Const)
	if !ok || c.Value == nil {
		return 0, false
	}
	if !types.Identical(c.Type().Underlying(), c.Type().Underlying()) {
		return 0, false
	}
	if b, ok := c.Type().Underlying().(*types.Basic); !ok || b.Info()&types.IsInteger == 0 {
		return 0, false
	}
	return c.Int64(), true
}

func (f *Frame) bitop(x *ssa.BinOp, a, b Term, st *State) Term {
	un := f.un
	if k, ok := constInt(x.Y); ok && k >= 0 && k < 63 {
		p := IntLit(int64(1) << uint(k))
		switch x.Op {
		case token.SHL:
			r := Mul(a, p)
			if lo, hi, ok := intRange(x.Type().Underlying().(*types.Basic)); ok && isUnsigned(x.Type()) {
				_ = lo
				return mk(SInt, "mod", r, Add(IntLitS(hi), IntLit(1)))
			}
			f.overflow(x, r, st)
			return r
		case token.SHR:
			return mk(SInt, "div", a, p)
		case token.AND:
			// mask 2^m - 1
			if k > 0 && (k&(k+1)) == 0 {
				un.assume(st, Ge(a, IntLit(0)))
				return mk(SInt, "mod", a, IntLit(k+1))
			}
		}
	}
	r := un.fresh("bitop", SInt)
	if isUnsigned(x.Type()) {
		un.assume(st, un.typeFacts(x.Type(), r, st, 0))
	}
	un.note("bit operation " + x.Op.String() + " in " + f.fn.Name() + " is abstracted (result unconstrained within its type)")
	un.assume(st, un.typeFacts(x.Type(), r, st, 0))
	return r
}

func (f *Frame) equal(a, b Term, ty types.Type) Term {
	switch ty.Underlying().(type) {
	case *types.Slice:
		// only comparison with nil is legal
		if a.S == nilSlice.S {
			return Eq(SBase(b), IntLit(0))
		}
		if b.S == nilSlice.S {
			return Eq(SBase(a), IntLit(0))
		}
	case *types.Interface:
		if a.S == nilIface.S {
			return Eq(ITag(b), IntLit(0))
		}
		if b.S == nilIface.S {
			return Eq(ITag(a), IntLit(0))
		}
	}
	return Eq(a, b)
}

func (f *Frame) convert(x *ssa.Convert, st *State) {
	un := f.un
	u := un.u
	v := f.term(x.X, st)
	from, to := x.X.Type().Underlying(), x.Type().Underlying()
	fb, fok := from.(*types.Basic)
	tb, tok := to.(*types.Basic)
	switch {
	case fok && tok && fb.Info()&types.IsInteger != 0 && tb.Info()&types.IsInteger != 0:
		if lo, hi, ok := intRange(tb); ok {
			flo, fhi, _ := intRange(fb)
			if !(rangeWithin(flo, fhi, lo, hi)) {
				f.safety(st, "convert", x, And(Le(IntLitS(lo), v), Le(v, IntLitS(hi))))
			}
		}
		f.vals[x] = Val{T: v, Go: x.Type()}
	case fok && tok && (fb.Info()&types.IsFloat != 0 || tb.Info()&types.IsFloat != 0):
		if fb.Info()&types.IsInteger != 0 {
			f.vals[x] = Val{T: v, Go: x.Type()}
		} else {
			r := un.fresh("fconv", SInt)
			un.assume(st, un.typeFacts(x.Type(), r, st, 0))
			f.vals[x] = Val{T: r, Go: x.Type()}
		}
	case tok && tb.Info()&types.IsString != 0:
		if sl, ok := from.(*types.Slice); ok {
			// string(bytes)
			hn := un.elemHeap(sl.Elem())
			h := un.H(st, hn, ArrSort(SInt, ArrSort(SInt, SInt)))
			un.eng.needStrOf = true
			s := un.fresh("str", SStr)
			un.assume(st, Eq(s, mk(SStr, "str_of", Select(h, SBase(v)), SOff(v), SLen(v))))
			f.vals[x] = Val{T: s, Go: x.Type()}
		} else {
			f.vals[x] = Val{T: un.fresh("strconv", SStr), Go: x.Type()}
		}
	case fok && fb.Info()&types.IsString != 0:
		if sl, ok := to.(*types.Slice); ok {
			base := un.allocRef(st, "bytes")
			hn := un.elemHeap(sl.Elem())
			h := un.H(st, hn, ArrSort(SInt, ArrSort(SInt, SInt)))
			row := un.fresh("row", ArrSort(SInt, SInt))
			i := Term{"i", SInt}
			ln := mk(SInt, "strlen", v)
			un.assume(st, Forall([]Term{i}, Implies(And(Le(IntLit(0), i), Lt(i, ln)), Eq(Select(row, i), mk(SInt, "strat", v, i))), Select(row, i)))
			un.setH(st, hn, Store(h, base, row))
			f.vals[x] = Val{T: SliceMk(base, IntLit(0), ln, ln), Go: x.Type()}
		} else {
			f.vals[x] = Val{T: un.fresh("conv", u.SortOf(x.Type())), Go: x.Type()}
		}
	default:
		if u.SortOf(x.X.Type()) == u.SortOf(x.Type()) {
			f.vals[x] = Val{T: v, Go: x.Type()}
		} else {
			f.vals[x] = Val{T: un.fresh("conv", u.SortOf(x.Type())), Go: x.Type()}
		}
	}
}

func rangeWithin(flo, fhi, lo, hi string) bool {
	if flo == "" {
		return false
	}
	return bigLE(lo, flo) && bigLE(fhi, hi)
}

func (f *Frame) typeAssert(x *ssa.TypeAssert, st *State) {
	un := f.un
	u := un.u
	v := f.term(x.X, st)
	var ok Term
	var res Term
	if _, isIface := x.AssertedType.Underlying().(*types.Interface); isIface {
		ok = And(Neq(ITag(v), IntLit(0)), un.eng.implements(x.AssertedType, ITag(v)))
		res = v
	} else {
		ok = Eq(ITag(v), u.TypeTag(x.AssertedType))
		res = u.Unbox(IVal(v), u.SortOf(x.AssertedType))
	}
	ok = un.define(x.Name()+"_ok", ok)
	if x.CommaOk {
		val := Ite(ok, res, u.Zero(res.Sort))
		f.vals[x] = Val{Tup: []Val{{T: un.define(x.Name(), val), Go: x.AssertedType}, {T: ok, Go: types.Typ[types.Bool]}}}
		return
	}
	f.safety(st, "typeassert", x, ok)
	r := un.define(x.Name(), res)
	un.assume(st, un.typeFacts(x.AssertedType, r, st, 0))
	f.vals[x] = Val{T: r, Go: x.Type()}
}

func (f *Frame) slice(x *ssa.Slice, st *State) {
	un := f.un
	var lo, hi, mx Term
	if x.Low != nil {
		lo = f.term(x.Low, st)
	} else {
		lo = IntLit(0)
	}
	switch xt := x.X.Type().Underlying().(type) {
	case *types.Slice:
		s := f.term(x.X, st)
		if x.High != nil {
			hi = f.term(x.High, st)
		} else {
			hi = SLen(s)
		}
		if x.Max != nil {
			mx = f.term(x.Max, st)
		} else {
			mx = SCap(s)
		}
		f.safety(st, "slice", x, And(Le(IntLit(0), lo), Le(lo, hi), Le(hi, mx), Le(mx, SCap(s))))
		f.vals[x] = Val{T: un.define(x.Name(), SliceMk(SBase(s), Add(SOff(s), lo), Sub(hi, lo), Sub(mx, lo))), Go: x.Type()}
	case *types.Basic: // string
		s := f.term(x.X, st)
		ln := mk(SInt, "strlen", s)
		if x.High != nil {
			hi = f.term(x.High, st)
		} else {
			hi = ln
		}
		f.safety(st, "slice", x, And(Le(IntLit(0), lo), Le(lo, hi), Le(hi, ln)))
		un.eng.needSubstr = true
		f.vals[x] = Val{T: mk(SStr, "substr", s, lo, hi), Go: x.Type()}
	case *types.Pointer:
		at := xt.Elem().Underlying().(*types.Array)
		p := f.term(x.X, st)
		n := IntLit(at.Len())
		if x.High != nil {
			hi = f.term(x.High, st)
		} else {
			hi = n
		}
		f.safety(st, "slice", x, And(Le(IntLit(0), lo), Le(lo, hi), Le(hi, n)))
		f.vals[x] = Val{T: un.define(x.Name(), SliceMk(p, lo, Sub(hi, lo), Sub(n, lo))), Go: x.Type()}
	default:
		f.fail("slice of %v", x.X.Type())
	}
}

func (f *Frame) lookup(x *ssa.Lookup, st *State) {
	un := f.un
	u := un.u
	if isString(x.X.Type()) {
		s := f.term(x.X, st)
		idx := f.term(x.Index, st)
		f.safety(st, "index", x, And(Le(IntLit(0), idx), Lt(idx, mk(SInt, "strlen", s))))
		f.vals[x] = Val{T: mk(SInt, "strat", s, idx), Go: x.Type()}
		return
	}
	mt := x.X.Type().Underlying().(*types.Map)
	m := f.term(x.X, st)
	k := f.term(x.Index, st)
	f.needLock(f.val(x.X, st).G, 1, st, x, "map lookup")
	dn, vn := un.mapHeaps(x.X.Type())
	ks, vs := u.SortOf(mt.Key()), u.SortOf(mt.Elem())
	d := un.H(st, dn, ArrSort(SInt, ArrSort(ks, SBool)))
	vv := un.H(st, vn, ArrSort(SInt, ArrSort(ks, vs)))
	ok := un.define(x.Name()+"_ok", And(Neq(m, IntLit(0)), Select(Select(d, m), k)))
	val := un.define(x.Name(), Ite(ok, Select(Select(vv, m), k), u.Zero(vs)))
	un.assume(st, un.typeFacts(mt.Elem(), val, st, 0))
	if x.CommaOk {
		f.vals[x] = Val{Tup: []Val{{T: val, Go: mt.Elem()}, {T: ok, Go: types.Typ[types.Bool]}}}
	} else {
		f.vals[x] = Val{T: val, Go: x.Type()}
	}
}

// mapStore sets (v != nil) or deletes (v == nil) key k of map m.
func (f *Frame) mapStore(mapType types.Type, m, k Term, v *Term, st *State) {
	un := f.un
	u := un.u
	mt := mapType.Underlying().(*types.Map)
	dn, vn := un.mapHeaps(mapType)
	ks, vs := u.SortOf(mt.Key()), u.SortOf(mt.Elem())
	d := un.H(st, dn, ArrSort(SInt, ArrSort(ks, SBool)))
	un.setH(st, dn, Store(d, m, Store(Select(d, m), k, BoolLit(v != nil))))
	if v != nil {
		vv := un.H(st, vn, ArrSort(SInt, ArrSort(ks, vs)))
		un.setH(st, vn, Store(vv, m, Store(Select(vv, m), k, *v)))
	}
}

func (f *Frame) rangeStart(x *ssa.Range, st *State) {
	un := f.un
	if isString(x.X.Type()) {
		f.fail("range over string")
	}
	mt := x.X.Type().Underlying().(*types.Map)
	ks := un.u.SortOf(mt.Key())
	un.nlocal++
	key := fmt.Sprintf("$seen%d", un.nlocal)
	un.setH(st, key, ConstArr(ArrSort(ks, SBool), tFalse))
	if f.ranges == nil {
		f.ranges = map[ssa.Value]string{}
	}
	f.ranges[x] = key
	f.needLock(f.val(x.X, st).G, 1, st, x, "map range")
	f.vals[x] = Val{T: f.term(x.X, st), Go: x.X.Type(), G: f.val(x.X, st).G}
}

func (f *Frame) rangeNext(x *ssa.Next, st *State) {
	un := f.un
	u := un.u
	rg := x.Iter.(*ssa.Range)
	mt := rg.X.Type().Underlying().(*types.Map)
	key := f.ranges[rg]
	m := f.vals[rg].T
	f.needLock(f.vals[rg].G, 1, st, x, "map range step")
	ks, vs := u.SortOf(mt.Key()), u.SortOf(mt.Elem())
	dn, vn := un.mapHeaps(rg.X.Type())
	d := Select(un.H(st, dn, ArrSort(SInt, ArrSort(ks, SBool))), m)
	vv := Select(un.H(st, vn, ArrSort(SInt, ArrSort(ks, vs))), m)
	seen := un.H(st, key, ArrSort(ks, SBool))
	ok := un.fresh(x.Name()+"_ok", SBool)
	k := un.fresh(x.Name()+"_k", ks)
	q := Term{"k", ks}
	allSeen := Forall([]Term{q}, Implies(And(Neq(m, IntLit(0)), Select(d, q)), Select(seen, q)), Select(d, q))
	un.assume(st, Ite(ok, And(Neq(m, IntLit(0)), Select(d, k), Not(Select(seen, k))), allSeen))
	// when the range is exhausted the visited set IS the key set (only keys of the map are ever visited)
	// (as long as the loop does not write maps of this type: the key set is still the one the range started with)
	if !un.eng.loopWritesMap(f, x, dn) {
		un.assume(st, Implies(Not(ok), Eq(seen, Ite(Eq(m, IntLit(0)), ConstArr(ArrSort(ks, SBool), tFalse), d))))
		q2 := Term{"k!sub", ks}
		un.assume(st, Forall([]Term{q2}, Implies(Select(seen, q2), And(Neq(m, IntLit(0)), Select(d, q2))), Select(seen, q2)))
	}
	un.setH(st, key, Ite(ok, Store(seen, k, tTrue), seen))
	val := un.define(x.Name()+"_v", Select(vv, k))
	un.assume(st, Implies(ok, And(un.typeFacts(mt.Key(), k, st, 0), un.typeFacts(mt.Elem(), val, st, 0))))
	f.vals[x] = Val{Tup: []Val{{T: ok, Go: types.Typ[types.Bool]}, {T: k, Go: mt.Key()}, {T: val, Go: mt.Elem()}}}
}

// loopWritesMap: the loop around the range step x may modify map heap dn (or everything).
func (e *Engine) loopWritesMap(f *Frame, x *ssa.Next, dn string) bool {
	if li := f.loops[x.Block()]; li != nil {
		{
			mods := e.loopMods(f, li)
			if mods["*"] || mods["*nonghost"] || mods[dn] {
				return true
			}
			for k := range mods {
				if strings.HasPrefix(k, "*nonghost-except:") {
					keep := false
					for _, h := range strings.Split(strings.TrimPrefix(k, "*nonghost-except:"), ",") {
						if h == dn {
							keep = true
						}
					}
					if !keep {
						return true
					}
				}
			}
			return false
		}
	}
	return true
}

func (f *Frame) chanSend(x *ssa.Send, st *State) {
	f.un.eng.chanSendHook(f, x, st)
}

func (f *Frame) chanRecv(x *ssa.UnOp, st *State) {
	un := f.un
	ct := x.X.Type().Underlying().(*types.Chan)
	v := un.fresh("recv", un.u.SortOf(ct.Elem()))
	un.assume(st, un.typeFacts(ct.Elem(), v, st, 0))
	un.eng.chanRecvHook(f, x.X, v, st)
	if x.CommaOk {
		f.vals[x] = Val{Tup: []Val{{T: v, Go: ct.Elem()}, {T: un.fresh("recvok", SBool), Go: types.Typ[types.Bool]}}}
	} else {
		f.vals[x] = Val{T: v, Go: x.Type()}
	}
}

func (f *Frame) selectInstr(x *ssa.Select, st *State) {
	un := f.un
	idx := un.fresh("selidx", SInt)
	lo := IntLit(0)
	if !x.Blocking {
		lo = IntLit(-1)
	}
	un.assume(st, And(Le(lo, idx), Lt(idx, IntLit(int64(len(x.States))))))
	tup := []Val{{T: idx, Go: types.Typ[types.Int]}, {T: un.fresh("recvok", SBool), Go: types.Typ[types.Bool]}}
	for i, s := range x.States {
		if s.Dir == types.RecvOnly {
			ct := s.Chan.Type().Underlying().(*types.Chan)
			v := un.fresh("recv", un.u.SortOf(ct.Elem()))
			un.assume(st, un.typeFacts(ct.Elem(), v, st, 0))
			sub := st.clone()
			un.eng.chanRecvHook(f, s.Chan, v, &sub)
			// facts about the received value hold when this case was chosen
			if sub.R.S != st.R.S {
				un.assume(st, Implies(Eq(idx, IntLit(int64(i))), sub.R))
			}
			tup = append(tup, Val{T: v, Go: ct.Elem()})
		} else {
			un.eng.selectSendHook(f, x, i, idx, st)
		}
	}
	f.vals[x] = Val{Tup: tup}
	// ghost-after F select: `selected` is the index of the case taken (-1: the default case of a non-blocking select)
	f.runGhostHooks("select", map[string]Val{"selected": {T: idx, Go: types.Typ[types.Int]}}, st)
}

// closurePreconditions: what the contract of a closure requires of its CAPTURED variables has to hold where the closure is
// made (its callers -- a worker, an expiry sweep -- cannot establish anything about them). Clauses that mention a parameter of
// the closure cannot be evaluated here and are left to the call sites.
func (f *Frame) closurePreconditions(fn *ssa.Function, bind []Val, st *State, pos token.Pos) {
	un := f.un
	ct := un.eng.contractFor(fn)
	if ct == nil || f.pure || len(ct.Requires) == 0 || len(bind) != len(fn.FreeVars) {
		return
	}
	env := map[string]Val{}
	for i, fv := range fn.FreeVars {
		b := bind[i]
		if pt, isPtr := fv.Type().Underlying().(*types.Pointer); isPtr {
			lv := b.LV
			if lv == nil {
				if b.T.S == "" {
					return
				}
				lv = un.lvOfPointer(b.T, fv.Type())
			}
			env[fv.Name()] = Val{T: un.readLV(lv, st), Go: pt.Elem(), LVSelf: lv}
		} else {
			env[fv.Name()] = b
		}
	}
	saved := f.clausePkg
	f.clausePkg = ct.Pkg
	defer func() { f.clausePkg = saved }()
	for _, rq := range ct.Requires {
		parts := f.splitGoal(rq.E, env, 0)
		for pi, part := range parts {
			var g Term
			ok := true
			func() {
				defer func() {
					if r := recover(); r != nil {
						if _, u := r.(unsupported); !u {
							panic(r)
						}
						ok = false
					}
				}()
				scratch := st.clone()
				g = f.eval(part, &evalCtx{env: env, cur: &scratch, old: &scratch}).T
			}()
			if !ok || g.Sort != SBool {
				continue // mentions a parameter of the closure (or something not in scope here)
			}
			un.obligeNamed(st, fmt.Sprintf("closurepre:%s#%s%s@%s", shortFn(fn.String()), rq.label(), partSuffix(pi, len(parts)), un.siteTag("clo:"+fn.String(), pos)),
				"precondition", rq.Text+" [captured variables, where the closure is made]", un.posOf(pos), g)
		}
	}
}

// guardOf: the lock that guards location lv (a `guarded T.f by mtx` declaration), if any.
func (f *Frame) guardOf(lv *LVal) *guard {
	if lv.G != nil {
		return lv.G
	}
	if lv.Kind != lvObj || len(lv.Path) == 0 {
		return nil
	}
	if f.un.freshRefs[lv.Ref.S] {
		return nil // object allocated by this very function: not shared yet
	}
	si := f.un.sinfo(lv.Root)
	fld := si.fields[lv.Path[0]]
	mtx, ok := f.un.eng.guards[f.un.fieldHeap(lv.Root, fld.name)]
	if !ok {
		return nil
	}
	mi := si.fieldIndex(mtx)
	if mi < 0 {
		return nil
	}
	ml := &LVal{Kind: lvObj, Ref: lv.Ref, Root: lv.Root, Path: []int{mi}, Typ: si.fields[mi].typ}
	hn, key := f.un.lockHeap(ml)
	return &guard{heap: hn, key: key, what: TypeKey(lv.Root) + "." + fld.name + " (guarded by " + mtx + ")"}
}

// needLock: obligation that the guard is held (level 1 = shared, 2 = exclusive).
func (f *Frame) needLock(g *guard, level int, st *State, at ssa.Instruction, what string) {
	if g == nil || f.pure {
		return
	}
	un := f.un
	cur := Select(un.H(st, g.heap, ArrSort(SInt, SInt)), g.key)
	goal := Ge(cur, IntLit(1))
	if level == 2 {
		goal = Eq(cur, IntLit(2))
	}
	pos := at.Pos()
	if !pos.IsValid() {
		pos = f.nearPos(at)
	}
	need := "shared"
	if level == 2 {
		need = "exclusive"
	}
	un.oblige(st, "guard", what+": "+g.what+" needs the "+need+" lock", pos, goal, false)
	// Check-then-act across a lock release (the one interleaving fact the lock discipline can express): a guarded map that was
	// looked up in an EARLIER critical section of this call -- the lock has been released since, so another goroutine may have
	// changed the map -- must be looked up again in the current critical section before it is updated (double-checked
	// locking). $ep: number of acquisitions of the lock so far; $rd: the critical section of the last lookup (0: none).
	if strings.HasPrefix(what, "map ") && !strings.HasPrefix(g.heap, "$") && lockAcquisitions(f.fn, g.what) >= 2 {
		en, rn := "$ep_"+g.heap, "$rd_"+sanitize(g.what)
		ep := Select(un.H(st, en, ArrSort(SInt, SInt)), g.key)
		rh := un.H(st, rn, ArrSort(SInt, SInt))
		if level == 2 {
			rd := Select(rh, g.key)
			un.oblige(st, "guard", what+": "+g.what+" was looked up in an earlier critical section (the lock has been released since) and not again in this one", pos,
				Or(Eq(rd, IntLit(0)), Eq(rd, ep)), false)
		}
		un.setH(st, rn, Store(rh, g.key, ep))
	}
}

func lvDesc(lv *LVal) string {
	switch lv.Kind {
	case lvObj:
		return "field of " + TypeKey(lv.Root)
	case lvElem:
		return "element of " + lv.Heap
	}
	return "location"
}

// runGhostHooks executes the ghost assignments declared for this program point (`ghost-after`).
// Only ghost fields and ghost variables can be assigned, so the executable state is untouched.
func (f *Frame) runGhostHooks(event string, extra map[string]Val, st *State) {
	un := f.un
	hooks := un.eng.ghostHooks[f.fn.String()+"|"+event]
	if len(hooks) == 0 {
		return
	}
	env := map[string]Val{}
	if f.curBlock != nil {
		for k, v := range f.baseEnv(f.curBlock, st) {
			env[k] = v
		}
	}
	for k, v := range extra {
		env[k] = v
	}
	pre := st.clone()
	for _, h := range hooks {
		// a hook that names variables which do not exist at this site (another call of the same callee elsewhere in the
		// function) does not apply here
		applicable := true
		for _, set := range h.Sets {
			func() {
				defer func() {
					if r := recover(); r != nil {
						if _, u := r.(unsupported); !u {
							panic(r)
						}
						applicable = false
					}
				}()
				scratch := pre.clone()
				f.eval(set.E, &evalCtx{env: env, cur: &scratch, old: &f.top().entry})
			}()
		}
		if !applicable {
			un.note("ghost hook " + h.Name + " does not apply at one of its sites (names not in scope there)")
			continue
		}
		for _, set := range h.Sets {
			lhs := strings.TrimPrefix(set.Kind, "set:")
			rhs := f.eval(set.E, &evalCtx{env: env, cur: &pre, old: &f.top().entry})
			le, err := ParseExpr(lhs)
			if err != nil {
				f.fail("%s: %v", set.Pos, err)
			}
			switch x := le.(type) {
			case EIdent:
				if !strings.HasPrefix(x.Name, "#") {
					f.fail("%s: only ghost state can be set", set.Pos)
				}
				g := x.Name[1:]
				srt, ok := un.eng.ghostVars[g]
				if !ok {
					f.fail("%s: unknown ghost variable %s", set.Pos, x.Name)
				}
				if rhs.T.Sort == "nil" {
					rhs.T = un.u.Zero(srt)
				}
				un.heapInit("G_"+sanitize(g), srt)
				un.setH(st, "G_"+sanitize(g), rhs.T)
			case EField:
				if !strings.HasPrefix(x.Name, "#") {
					f.fail("%s: only ghost fields can be set", set.Pos)
				}
				obj := f.eval(x.X, &evalCtx{env: env, cur: &pre, old: &f.top().entry})
				T, sty := derefStruct(obj.Go)
				if sty == nil || obj.LV != nil {
					f.fail("%s: ghost field of a non-object", set.Pos)
				}
				si := un.sinfo(T)
				idx := si.fieldIndex(x.Name)
				if idx < 0 {
					f.fail("%s: no ghost field %s", set.Pos, x.Name)
				}
				if rhs.T.Sort == "nil" {
					rhs.T = un.u.Zero(si.fields[idx].sort)
				}
				hn := un.fieldHeap(T, x.Name)
				h := un.H(st, hn, ArrSort(SInt, si.fields[idx].sort))
				un.setH(st, hn, Store(h, obj.T, rhs.T))
			default:
				f.fail("%s: unsupported ghost assignment target", set.Pos)
			}
		}
	}
}

var lockAcqMemo = map[string]int{}

// lockAcquisitions: number of Lock/RLock call sites in fn on the mutex field that guards the location described by what
// ("T.field (guarded by mtx)"); a function with a single critical section of that lock cannot act on a stale lookup.
func lockAcquisitions(fn *ssa.Function, what string) int {
	i := strings.Index(what, " (guarded by ")
	if i < 0 {
		return 2
	}
	tf := what[:i]
	d := strings.LastIndex(tf, ".")
	if d < 0 {
		return 2
	}
	want := tf[:d] + "." + strings.TrimSuffix(what[i+len(" (guarded by "):], ")")
	mk := fn.String() + "|" + want
	if n, ok := lockAcqMemo[mk]; ok {
		return n
	}
	n := 0
	for _, b := range fn.Blocks {
		for _, ins := range b.Instrs {
			c, ok := ins.(ssa.CallInstruction)
			if !ok {
				continue
			}
			cf := c.Common().StaticCallee()
			if cf == nil || len(c.Common().Args) == 0 {
				continue
			}
			s := cf.String()
			if s != "(*sync.Mutex).Lock" && s != "(*sync.RWMutex).Lock" && s != "(*sync.RWMutex).RLock" {
				continue
			}
			fa, ok := c.Common().Args[0].(*ssa.FieldAddr)
			if !ok {
				n++ // a mutex reached some other way: counted, to stay on the cautious side
				continue
			}
			T, st := derefStruct(fa.X.Type())
			if st == nil {
				n++
				continue
			}
			if TypeKey(T)+"."+st.Field(fa.Field).Name() == want {
				n++
			}
		}
	}
	lockAcqMemo[mk] = n
	return n
}
