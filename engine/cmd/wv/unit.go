package main

import (
	"fmt"
	"go/token"
	"go/types"
	"sort"
	"strings"

	"golang.org/x/tools/go/ssa"
)

// Obl is one proof obligation.
type Obl struct {
	Name   string
	Kind   string
	Pos    string
	Text   string
	R      Term // reachability / assumptions at this point
	Goal   Term
	NDecl  int // number of unit decl lines visible to this obligation
	Safety bool
	Smoke  bool // a vacuity probe: expected NOT to be provable
	Splits [][]Term
}

// State is the symbolic state at a program point.
type State struct {
	R  Term
	H  map[string]Term
	Ep int             // heap epoch: heaps absent from H read as name@Ep
	K  map[string]bool // goals already established on every path to this point
	Sp [][]Term        // case splits available: disjunct lists of the merges on the way here
}

func (s State) clone() State {
	h := make(map[string]Term, len(s.H))
	for k, v := range s.H {
		h[k] = v
	}
	k := make(map[string]bool, len(s.K))
	for g := range s.K {
		k[g] = true
	}
	return State{s.R, h, s.Ep, k, append([][]Term{}, s.Sp...)}
}

// LVal describes a memory location.
type LVal struct {
	Kind int // lvLocal, lvObj, lvElem, lvCell
	Heap string
	Ref  Term
	Idx  Term
	Path []int // field indices into nested struct values
	Root types.Type
	Typ  types.Type // type of the location after Path
	G    *guard     // lock that must be held to touch this location (C20)
}

// guard: a lock-state cell (heap, key) and a description.
type guard struct {
	heap string
	key  Term
	what string
}

const (
	lvLocal = iota
	lvObj
	lvElem
	lvCell
)

// Val is the translation-time value of an ssa.Value.
type Val struct {
	T      Term
	LV     *LVal // the value is the address of this location (interior pointer)
	Tup    []Val
	Clo    *Closure
	Go     types.Type
	Dyn    types.Type // statically known dynamic type of an interface value
	LVSelf *LVal      // the location this value was read from (for modifies through captured variables)
	G      *guard     // the value (map / slice) was read from a guarded field
}

type Closure struct {
	Fn   *ssa.Function
	Bind []Val
}

type epochArm struct {
	R  Term
	ep int
}

// Unit is one verification unit: a function body (with inlined callees) and its obligations.
type Unit struct {
	setMemo     map[string]Term // setof comprehensions by body
	siteOrd     map[string]map[token.Pos]int
	eng         *Engine
	u           *Universe
	fn          *ssa.Function
	name        string
	decls       []string
	obls        []*Obl
	nfresh      int
	heapSort    map[string]Sort
	ord         map[string]int
	notes       map[string]bool
	errs        []string
	nlocal      int
	nepoch      int
	epochJoin   map[int][]epochArm
	rec         map[string]bool // when non-nil: heap names read (footprint computation)
	freshRefs   map[string]bool // references allocated by the unit itself
	axHeaps     map[string]Term // when non-nil: axiom mode, heap name -> bound variable
	reveals     map[string]bool
	revealed    map[string]bool // definitional axioms already emitted (function|heap tuple)
	inQuant     int
	lockDefault bool // lock heaps start all-free (function entered with no modelled lock held)
	declared    map[string]bool
	heapType    map[string]types.Type
	defMemo     map[string]string
	lastDef     string
	ifacePay    map[string]Term
	outer       map[string]Val // names of enclosing functions a closure contract mentions without the closure capturing them
}

func (un *Unit) note(s string) { un.notes[s] = true }

func (un *Unit) fresh(prefix string, s Sort) Term {
	un.nfresh++
	n := fmt.Sprintf("%s!%d", sanitize(prefix), un.nfresh)
	un.decls = append(un.decls, fmt.Sprintf("(declare-const %s %s)", n, s))
	return Term{n, s}
}

// define names a term so that later uses stay small.
func (un *Unit) define(prefix string, t Term) Term {
	if len(t.S) < 24 || un.inQuant > 0 {
		return t
	}
	if n, ok := un.defMemo[t.S]; ok {
		return Term{n, t.Sort}
	}
	defer func() { un.defMemo[t.S] = un.lastDef }()
	un.nfresh++
	n := fmt.Sprintf("%s!%d", sanitize(prefix), un.nfresh)
	un.lastDef = n
	if t.Sort == SBool {
		// Boolean names are macros: quantifiers inside keep their polarity (skolemisation), and
		// Boolean names never occur in patterns
		un.decls = append(un.decls, fmt.Sprintf("(define-fun %s () Bool %s)", n, t.S))
		return Term{n, t.Sort}
	}
	un.decls = append(un.decls, fmt.Sprintf("(declare-const %s %s)", n, t.Sort), fmt.Sprintf("(assert (= %s %s))", n, t.S))
	return Term{n, t.Sort}
}

func (un *Unit) axiom(t Term) {
	un.decls = append(un.decls, "(assert "+t.S+")")
}

func (un *Unit) heapInit(name string, s Sort) Term { return un.heapAt(name, s, 0) }

func (un *Unit) heapAt(name string, s Sort, ep int) Term {
	if old, ok := un.heapSort[name]; ok {
		if old != s {
			panic(unsupported{fmt.Sprintf("heap %s used at sorts %s and %s", name, old, s)})
		}
	} else {
		un.heapSort[name] = s
	}
	n := fmt.Sprintf("%s@%d", name, ep)
	if !un.declared[n] {
		un.declared[n] = true
		un.decls = append(un.decls, fmt.Sprintf("(declare-const %s %s)", n, s))
		nx := Term{}
		if ep == 0 && name != "$next" {
			nx = un.heapAt("$next", SInt, 0)
		}
		un.heapTyping(name, Term{n, s}, nx)
		for _, arm := range un.epochJoin[ep] {
			child := un.heapAt(name, s, arm.ep)
			un.decls = append(un.decls, "(assert "+Implies(arm.R, Eq(Term{n, s}, child)).S+")")
		}
		if ep == 0 && un.lockDefault && strings.HasPrefix(name, "K_") {
			un.decls = append(un.decls, fmt.Sprintf("(assert (= %s ((as const %s) 0)))", n, s))
		}
	}
	return Term{n, s}
}

// H reads heap `name` in state st (value of the state's epoch if never written on this path).
func (un *Unit) H(st *State, name string, s Sort) Term {
	if un.rec != nil {
		un.rec[name] = true
	}
	if un.axHeaps != nil {
		// axiom mode: heaps are universally quantified
		if _, ok := un.heapSort[name]; !ok {
			un.heapSort[name] = s
		}
		if t, ok := un.axHeaps[name]; ok {
			return t
		}
		t := Term{"H!ax_" + sanitize(name), s}
		un.axHeaps[name] = t
		return t
	}
	if t, ok := st.H[name]; ok {
		return t
	}
	if strings.HasPrefix(name, "$defer") {
		un.heapSort[name] = SBool
		return tFalse
	}
	return un.heapAt(name, s, st.Ep)
}

func isLocalKey(k string) bool {
	return strings.HasPrefix(k, "$") || strings.HasPrefix(k, "K_") || (len(k) > 1 && k[0] == 'L' && k[1] >= '0' && k[1] <= '9')
}

// havocAllButGhost forgets every program heap; ghost variables and lock states keep their values.
func (un *Unit) havocAllButGhost(st *State) {
	keep := map[string]Term{}
	for k, v := range st.H {
		if strings.HasPrefix(k, "G_") {
			keep[k] = v
		}
	}
	// ghost variables never written on this path keep the value of the current epoch
	for g, srt := range un.eng.ghostVars {
		k := "G_" + sanitize(g)
		if _, ok := keep[k]; !ok {
			keep[k] = un.H(st, k, srt)
		}
	}
	un.havocAll(st)
	for k, v := range keep {
		st.H[k] = v
	}
}

// havocAll forgets every heap except locals and the allocation counter.
func (un *Unit) havocAll(st *State) {
	next := un.H(st, "$next", SInt)
	// immutable fields: existing objects keep their values
	keep := map[string]Term{}
	for k := range un.eng.immutable {
		srt, ok := un.heapSort[k]
		if !ok {
			srt, ok = un.eng.heapSortHint[k]
		}
		if ok {
			keep[k] = un.H(st, k, srt)
		}
	}
	un.nepoch++
	for k := range st.H {
		if !isLocalKey(k) {
			delete(st.H, k)
		}
	}
	st.H["$next"] = next
	st.Ep = un.nepoch
	for _, k := range sortedKeys(keep) {
		st.H[k] = keep[k]
		if _, ok := st.H["$limit"]; !ok {
			st.H["$limit"] = next
		}
		un.havocFresh(st, k)
	}
}

func (un *Unit) setH(st *State, name string, t Term) {
	un.heapInit(name, t.Sort)
	st.H[name] = un.define(name, t)
}

func (un *Unit) assume(st *State, t Term) {
	if t.S == "true" {
		return
	}
	st.R = un.define("R", And(st.R, t))
}

func (un *Unit) posOf(p token.Pos) string {
	if !p.IsValid() {
		return ""
	}
	pp := un.eng.fset.Position(p)
	f := pp.Filename
	f = strings.TrimPrefix(f, "/repo/")
	return fmt.Sprintf("%s:%d", f, pp.Line)
}

// oblige records an obligation and then assumes it.
func (un *Unit) oblige(st *State, kind, text string, pos token.Pos, goal Term, safety bool) {
	if goal.S == "true" || st.K[goal.S] {
		return
	}
	if st.K == nil {
		st.K = map[string]bool{}
	}
	st.K[goal.S] = true
	un.ord[kind]++
	o := &Obl{Name: fmt.Sprintf("%s/%s#%d", un.name, kind, un.ord[kind]), Kind: kind, Pos: un.posOf(pos), Text: text,
		R: st.R, Goal: goal, NDecl: len(un.decls), Safety: safety, Splits: st.Sp}
	un.obls = append(un.obls, o)
	un.assume(st, goal)
}

func (un *Unit) obligeNamed(st *State, name, kind, text, pos string, goal Term) {
	o := &Obl{Name: un.name + "/" + name, Kind: kind, Pos: pos, Text: text, R: st.R, Goal: goal, NDecl: len(un.decls), Splits: st.Sp}
	un.obls = append(un.obls, o)
	un.assume(st, goal)
}

func (un *Unit) smoke(st *State, name string) {
	o := &Obl{Name: un.name + "/smoke:" + name, Kind: "smoke", R: st.R, Goal: tFalse, NDecl: len(un.decls), Smoke: true}
	un.obls = append(un.obls, o)
}

// Query renders the SMT-LIB text for an obligation.
func (un *Unit) Query(o *Obl, prelude string, model []string, extra ...Term) string {
	var b strings.Builder
	b.WriteString(prelude)
	for _, d := range un.decls[:o.NDecl] {
		b.WriteString(d)
		b.WriteByte('\n')
	}
	for _, x := range extra {
		fmt.Fprintf(&b, "(assert %s)\n", x.S)
	}
	fmt.Fprintf(&b, "(assert %s)\n(assert (not %s))\n(check-sat)\n", o.R.S, o.Goal.S)
	if len(model) > 0 {
		b.WriteString("(get-value (" + strings.Join(model, " ") + "))\n")
	}
	return pruneQuery(b.String())
}

// ---------------------------------------------------------------------------------------
// typing facts

var pow2 = map[int]string{
	7: "128", 8: "256", 15: "32768", 16: "65536", 31: "2147483648", 32: "4294967296",
	63: "9223372036854775808", 64: "18446744073709551616",
}

func intRange(b *types.Basic) (lo, hi string, ok bool) {
	switch b.Kind() {
	case types.Int8:
		return "-128", "127", true
	case types.Int16:
		return "-32768", "32767", true
	case types.Int32:
		return "-2147483648", "2147483647", true
	case types.Int, types.Int64:
		return "-9223372036854775808", "9223372036854775807", true
	case types.Uint8:
		return "0", "255", true
	case types.Uint16:
		return "0", "65535", true
	case types.Uint32:
		return "0", "4294967295", true
	case types.Uint, types.Uint64, types.Uintptr:
		return "0", "18446744073709551615", true
	}
	return "", "", false
}

func (un *Unit) typeFacts(t types.Type, v Term, st *State, depth int) Term {
	switch tt := t.Underlying().(type) {
	case *types.Basic:
		if lo, hi, ok := intRange(tt); ok {
			return And(Le(IntLitS(lo), v), Le(v, IntLitS(hi)))
		}
	case *types.Pointer, *types.Map, *types.Chan:
		if st == nil {
			return Le(IntLit(0), v)
		}
		return And(Le(IntLit(0), v), Le(v, un.H(st, "$next", SInt)))
	case *types.Signature:
		return Le(IntLit(0), v)
	case *types.Slice:
		nb := tTrue
		if st != nil {
			nb = Le(SBase(v), un.H(st, "$next", SInt))
		}
		return And(Le(IntLit(0), SBase(v)), nb, Le(IntLit(0), SOff(v)), Le(IntLit(0), SLen(v)), Le(SLen(v), SCap(v)),
			Le(SCap(v), IntLitS("1152921504606846976")),
			Implies(Eq(SBase(v), IntLit(0)), Eq(SCap(v), IntLit(0))))
	case *types.Interface:
		return Le(IntLit(0), ITag(v))
	case *types.Struct:
		if depth > 2 {
			return tTrue
		}
		si := un.u.StructInfo(un.u.SortOf(t))
		var cs []Term
		for i, f := range si.fields {
			if f.ghost {
				continue
			}
			cs = append(cs, un.typeFacts(f.typ, un.u.GetField(v, i), st, depth+1))
		}
		return And(cs...)
	}
	return tTrue
}

// ---------------------------------------------------------------------------------------
// heap names

func (un *Unit) fieldHeap(T types.Type, fieldName string) string {
	n := "F_" + TypeKey(T) + "_" + sanitize(fieldName)
	if _, ok := un.heapType[n]; !ok && strings.HasPrefix(fieldName, "#") {
		if _, st := derefStruct(T); st != nil {
			si := un.sinfo(T)
			if i := si.fieldIndex(fieldName); i >= 0 && si.fields[i].typ != nil {
				un.heapType[n] = si.fields[i].typ
			}
		}
	}
	if _, ok := un.heapType[n]; !ok {
		if _, st := derefStruct(T); st != nil {
			for i := 0; i < st.NumFields(); i++ {
				if st.Field(i).Name() == fieldName {
					un.heapType[n] = st.Field(i).Type()
				}
			}
		}
	}
	return n
}
func (un *Unit) elemHeap(elem types.Type) string {
	n := "E_" + TypeKey(elem)
	un.heapType[n] = elem
	return n
}
func (un *Unit) cellHeap(t types.Type) string {
	n := "C_" + TypeKey(t)
	un.heapType[n] = t
	return n
}
func (un *Unit) mapHeaps(m types.Type) (string, string) {
	k := TypeKey(m)
	un.heapType["Mv_"+k] = m.Underlying().(*types.Map).Elem()
	return "Md_" + k, "Mv_" + k
}

// heapTyping asserts that every value stored in a freshly introduced heap constant is within
// the range of its Go type (a typing invariant of Go memory, not an assumption about the program).
func (un *Unit) heapTyping(name string, h Term, next Term) {
	t, ok := un.heapType[name]
	if !ok {
		if t, ok = un.eng.heapTypeHint[name]; !ok {
			return
		}
	}
	r := Term{"r!ht", SInt}
	i := Term{"i!ht", SInt}
	var st *State
	if next.S != "" {
		// references stored in memory are allocated: not above the allocation counter
		st = &State{H: map[string]Term{"$next": next}}
	}
	switch {
	case strings.HasPrefix(name, "F_"), strings.HasPrefix(name, "C_"):
		v := Select(h, r)
		if f := un.typeFacts(t, v, st, 1); f.S != "true" {
			un.decls = append(un.decls, "(assert "+Forall([]Term{r}, f, v).S+")")
		}
	case strings.HasPrefix(name, "E_"):
		v := Select(Select(h, r), i)
		if f := un.typeFacts(t, v, st, 1); f.S != "true" {
			un.decls = append(un.decls, "(assert "+Forall([]Term{r, i}, f, v).S+")")
		}
	}
}

// freshHeap introduces a new unconstrained version of heap `name`.
func (un *Unit) freshHeap(st *State, name string, s Sort) Term {
	h := un.fresh(name, s)
	nx := Term{}
	if st != nil && name != "$next" {
		nx = un.H(st, "$next", SInt)
	}
	un.heapTyping(name, h, nx)
	return h
}

func derefStruct(t types.Type) (types.Type, *types.Struct) {
	if p, ok := t.Underlying().(*types.Pointer); ok {
		t = p.Elem()
	}
	if st, ok := t.Underlying().(*types.Struct); ok {
		return t, st
	}
	return t, nil
}

// structFieldInfo returns the struct info for T (a struct type, named or not).
func (un *Unit) sinfo(T types.Type) *structInfo {
	return un.u.StructInfo(un.u.SortOf(T))
}

// readLV reads the value at lv in st.
func (un *Unit) readLV(lv *LVal, st *State) Term {
	var root Term
	path := lv.Path
	switch lv.Kind {
	case lvLocal:
		root = un.H(st, lv.Heap, un.u.SortOf(lv.Root))
	case lvObj:
		si := un.sinfo(lv.Root)
		if len(path) == 0 {
			var args []Term
			for _, f := range si.fields {
				args = append(args, Select(un.H(st, un.fieldHeap(lv.Root, f.name), ArrSort(SInt, f.sort)), lv.Ref))
			}
			if len(args) == 0 {
				return Term{si.ctor, si.sort}
			}
			return mk(si.sort, si.ctor, args...)
		}
		f := si.fields[path[0]]
		root = Select(un.H(st, un.fieldHeap(lv.Root, f.name), ArrSort(SInt, f.sort)), lv.Ref)
		path = path[1:]
	case lvElem:
		es := un.u.SortOf(lv.Root)
		root = Select(Select(un.H(st, lv.Heap, ArrSort(SInt, ArrSort(SInt, es))), lv.Ref), lv.Idx)
	case lvCell:
		root = Select(un.H(st, lv.Heap, ArrSort(SInt, un.u.SortOf(lv.Root))), lv.Ref)
	}
	for _, i := range path {
		root = un.u.GetField(root, i)
	}
	return root
}

func (un *Unit) updPath(root Term, path []int, v Term) Term {
	if len(path) == 0 {
		return v
	}
	inner := un.updPath(un.u.GetField(root, path[0]), path[1:], v)
	return un.u.SetField(root, path[0], inner)
}

// writeLV stores v at lv.
func (un *Unit) writeLV(lv *LVal, st *State, v Term) {
	switch lv.Kind {
	case lvLocal:
		old := un.H(st, lv.Heap, un.u.SortOf(lv.Root))
		un.setH(st, lv.Heap, un.updPath(old, lv.Path, v))
	case lvObj:
		si := un.sinfo(lv.Root)
		if len(lv.Path) == 0 {
			for i, f := range si.fields {
				hn := un.fieldHeap(lv.Root, f.name)
				h := un.H(st, hn, ArrSort(SInt, f.sort))
				un.setH(st, hn, Store(h, lv.Ref, un.u.GetField(v, i)))
			}
			return
		}
		f := si.fields[lv.Path[0]]
		hn := un.fieldHeap(lv.Root, f.name)
		h := un.H(st, hn, ArrSort(SInt, f.sort))
		old := Select(h, lv.Ref)
		un.setH(st, hn, Store(h, lv.Ref, un.updPath(old, lv.Path[1:], v)))
	case lvElem:
		es := un.u.SortOf(lv.Root)
		h := un.H(st, lv.Heap, ArrSort(SInt, ArrSort(SInt, es)))
		inner := un.define("row", Select(h, lv.Ref))
		old := Select(inner, lv.Idx)
		newRow := un.define("row", Store(inner, lv.Idx, un.updPath(old, lv.Path, v)))
		if newRow.S != inner.S && !strings.HasPrefix(newRow.S, "(") {
			// read-over-write, triggered by reads of the OLD row: lets facts about old positions
			// be carried to the new row (witnesses for existentials over the updated slice)
			k := Term{"k", SInt}
			un.assume(st, Forall([]Term{k}, Eq(Select(newRow, k), Ite(Eq(k, lv.Idx), Select(newRow, lv.Idx), Select(inner, k))), Select(inner, k)))
		}
		un.setH(st, lv.Heap, Store(h, lv.Ref, newRow))
	case lvCell:
		h := un.H(st, lv.Heap, ArrSort(SInt, un.u.SortOf(lv.Root)))
		old := Select(h, lv.Ref)
		un.setH(st, lv.Heap, Store(h, lv.Ref, un.updPath(old, lv.Path, v)))
	}
}

// lvOfPointer turns a first-class pointer value into a location.
func (un *Unit) lvOfPointer(p Term, ptrType types.Type) *LVal {
	pt, ok := ptrType.Underlying().(*types.Pointer)
	if !ok {
		panic(fmt.Sprintf("lvOfPointer: %v is not a pointer", ptrType))
	}
	el := pt.Elem()
	if _, ok := el.Underlying().(*types.Struct); ok {
		return &LVal{Kind: lvObj, Ref: p, Root: el, Typ: el}
	}
	if at, ok := el.Underlying().(*types.Array); ok {
		// pointer to array: the object is a row of the element heap; location of the whole array is not addressable here
		return &LVal{Kind: lvElem, Heap: un.elemHeap(at.Elem()), Ref: p, Idx: IntLit(0), Root: at.Elem(), Typ: el}
	}
	return &LVal{Kind: lvCell, Heap: un.cellHeap(el), Ref: p, Root: el, Typ: el}
}

// allocRef returns a fresh reference.
func (un *Unit) allocRef(st *State, hint string) Term {
	r := un.fresh(hint, SInt)
	next := un.H(st, "$next", SInt)
	un.assume(st, Gt(r, next))
	un.assume(st, Gt(r, IntLit(0)))
	un.setH(st, "$next", r)
	return r
}

func sortedKeys(m map[string]Term) []string {
	ks := make([]string, 0, len(m))
	for k := range m {
		ks = append(ks, k)
	}
	sort.Strings(ks)
	return ks
}

// mergeStates joins states arriving over several edges. conds[i] is the (named) predicate
// "edge i was taken"; it already includes the predecessor's R.
func (un *Unit) mergeStates(sts []State) State {
	if len(sts) == 1 {
		return sts[0].clone()
	}
	out := State{H: map[string]Term{}, Ep: sts[0].Ep, K: map[string]bool{}}
	for g := range sts[0].K {
		all := true
		for _, s := range sts[1:] {
			if !s.K[g] {
				all = false
				break
			}
		}
		if all {
			out.K[g] = true
		}
	}
	for _, s := range sts {
		if s.Ep != out.Ep {
			// heaps never touched on any incoming path are joined lazily (see heapAt)
			un.nepoch++
			out.Ep = un.nepoch
			var arms []epochArm
			for i := range sts {
				sts[i].R = un.define("E", sts[i].R)
				arms = append(arms, epochArm{sts[i].R, sts[i].Ep})
			}
			un.epochJoin[out.Ep] = arms
			break
		}
	}
	var rs []Term
	for _, s := range sts {
		rs = append(rs, s.R)
	}
	out.R = un.define("R", Or(rs...))
	// common prefix of the incoming split lists, then this merge
	for i := 0; ; i++ {
		ok := true
		for _, s := range sts {
			if i >= len(s.Sp) || len(s.Sp[i]) != len(sts[0].Sp[i]) || (len(s.Sp[i]) > 0 && s.Sp[i][0].S != sts[0].Sp[i][0].S) {
				ok = false
				break
			}
		}
		if !ok {
			break
		}
		out.Sp = append(out.Sp, sts[0].Sp[i])
	}
	out.Sp = append(out.Sp, rs)
	keys := map[string]bool{}
	for _, s := range sts {
		for k := range s.H {
			keys[k] = true
		}
	}
	ks := make([]string, 0, len(keys))
	for k := range keys {
		ks = append(ks, k)
	}
	sort.Strings(ks)
	for _, k := range ks {
		srt := un.heapSort[k]
		var vals []Term
		for i := range sts {
			vals = append(vals, un.H(&sts[i], k, srt))
		}
		out.H[k] = un.define(k, un.iteChain(sts, vals))
	}
	return out
}

// iteChain joins the values arriving over several edges. Arrays are joined by guarded equalities
// (E_i => v = v_i) rather than nested ite terms, so that E-matching sees through the join once the solver
// (or a case split) has picked an edge.
func (un *Unit) iteChain(sts []State, vals []Term) Term {
	same := true
	for _, v := range vals[1:] {
		if v.S != vals[0].S {
			same = false
		}
	}
	if same {
		return vals[0]
	}
	if strings.HasPrefix(string(vals[0].Sort), "(Array ") && un.inQuant == 0 {
		v := un.fresh("join", vals[0].Sort)
		for i := range vals {
			un.decls = append(un.decls, "(assert "+Implies(sts[i].R, Eq(v, vals[i])).S+")")
		}
		return v
	}
	res := vals[len(vals)-1]
	for i := len(vals) - 2; i >= 0; i-- {
		res = Ite(sts[i].R, vals[i], res)
	}
	return res
}

// siteTag names a call site by the ordinal of its position among the sites of the same callee in this unit ("c1", "c2", ...),
// so that obligation names survive edits that only move lines.
func (un *Unit) siteTag(callee string, pos token.Pos) string {
	if un.siteOrd == nil {
		un.siteOrd = map[string]map[token.Pos]int{}
	}
	m := un.siteOrd[callee]
	if m == nil {
		m = map[token.Pos]int{}
		un.siteOrd[callee] = m
	}
	if _, ok := m[pos]; !ok {
		m[pos] = len(m) + 1
	}
	return fmt.Sprintf("c%d", m[pos])
}

// havocFresh: heap `name` changes only at references allocated after this point.
func (un *Unit) havocFresh(st *State, name string) {
	s, ok := un.heapSort[name]
	if !ok {
		s, ok = un.eng.heapSortHint[name]
		if !ok {
			return
		}
	}
	if !strings.HasPrefix(string(s), "(Array Int ") {
		return
	}
	old := un.H(st, name, s)
	// the counter as it is now bounds what existed (callers bump it before calling)
	lim := un.H(st, "$limit", SInt)
	nh := un.fresh(name+"_new", s)
	un.heapTyping(name, nh, un.H(st, "$next", SInt))
	r := Term{"r!nw", SInt}
	un.assume(st, Forall([]Term{r}, Implies(Le(r, lim), Eq(Select(nh, r), Select(old, r))), Select(nh, r)))
	st.H[name] = nh
}
