#!/usr/bin/env python3
"""Prints the markdown table of DESIGN.md 10.6 from the evaluation logs (tools/eval_seeded.sh output) and the meta.json files."""
import json, re, sys, glob
# usage: seeded_table.py <corpus dir name: seeded|seeded2> <eval logs...>
corpus = sys.argv[1]
rows = {}
for f in sys.argv[2:]:
    for l in open(f):
        m = re.match(r'/verif/' + corpus + r'/(C\d+)/(\d+) (C\d+) violations=(\d+)(?: replayed=\d+)? :: (.*)', l)
        if m:
            pid, n, chk, v, rest = m.groups()
            ob = re.findall(r'obligation (\S+)', rest)
            rows[(pid, int(n))] = (int(v), ob[:2])
print('| seeded change | what was changed | reported by |')
print('|---|---|---|')
for d in sorted(glob.glob('/verif/' + corpus + '/C*/*/meta.json')):
    pid, n = d.split('/')[3], int(d.split('/')[4])
    meta = json.load(open(d))
    v, ob = rows.get((pid, n), (None, []))
    what = meta.get('what', '').replace('|', '/').strip()
    if len(what) > 170:
        what = what[:167] + '...'
    rep = 'NOT reported' if v == 0 else ('?' if v is None else '`' + '`, `'.join(o.replace('|', '/') for o in ob) + '`' + (' (+%d)' % (v - len(ob)) if v > len(ob) else ''))
    print('| %s/%d | %s | %s |' % (pid, n, what, rep))
