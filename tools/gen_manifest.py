#!/usr/bin/env python3
"""Regenerates /verif/MANIFEST.json from props.json (claimed checks) and notapplicable.json."""
import json, subprocess, os
V = '/verif'
props = json.load(open(f'{V}/props.json'))
na = json.load(open(f'{V}/notapplicable.json')) if os.path.exists(f'{V}/notapplicable.json') else {}
allids = [json.loads(l)['id'] for l in open(f'{V}/properties.jsonl')]
baseline = json.load(open('/root/.vp/BASELINE.json'))
hooks = subprocess.run(['git', '-C', '/repo', 'log', '--format=%H %s'], capture_output=True, text=True).stdout.splitlines()
hook_commits = [l.split()[0] for l in hooks if l.split(' ', 1)[1].startswith('verif:')]
checks = []
claimed = set()
for p in props:
    if p.get('disabled'):
        continue
    claimed.add(p['id'])
    note = 'Trusted base: go/ssa as semantics of the source, the SSA-to-SMT translation of /verif/engine, the solvers (z3 5.1.0, z3 4.8.12, cvc5 1.0.3), ' \
           'the trusted contracts of external functions in /verif/specs/*.spec and the `trusted func` entries of the contract files (listed in the evidence file). ' \
           'Sequential reasoning per goroutine (A-SEQ); integers mathematical with overflow obligations; termination not proved. '
    if p.get('assumptions'):
        note += 'Assumptions: ' + '; '.join(p['assumptions']) + '. '
    if p.get('not_covered'):
        note += 'NOT covered (no contract within reach decides it): ' + '; '.join(p['not_covered']) + '.'
    if p.get('bounded'):
        note += ' Bounded parts (never counted as proved): ' + '; '.join(p['bounded']) + '.'
    checks.append({
        'property_id': p['id'],
        'quick_cmd': f"bin/wv check {p['id']} --tier quick",
        'thorough_cmd': f"bin/wv check {p['id']} --tier thorough",
        'evidence_file': f"/verif/evidence/{p['id']}.json",
        'replay_cmd_template': 'bin/wv replay {path}',
        'engine': 'wv',
        'level_claimed': {
            'category': 'proof',
            'text': 'Contract-based deductive verification of the real code: ' + p.get('note', '') +
                    '. Every obligation generated from the current /repo sources for the functions under contract ' +
                    '(' + ', '.join(p['units']) + ') is discharged by an SMT solver for all inputs and all iterations (loop invariants, no unrolling); ' +
                    'a change that breaks the property fails a named obligation.',
            'design_ref': 'DESIGN.md section 5, ' + p['id'],
        },
        'level_note': note,
        'technique': 'contract-based deductive verification: weakest-precondition VCs over go/ssa from comment contracts, discharged by z3/cvc5',
    })
not_app = []
for i in allids:
    if i not in claimed:
        not_app.append({'property_id': i, 'reason': na.get(i, 'check not built yet in this family (see DESIGN.md section 5 for the planned contracts)')})
m = {
    'version': 1,
    'setup_cmd': 'cd /verif/engine && GOFLAGS=-mod=vendor GOPROXY=off GOSUMDB=off GOTOOLCHAIN=local go build -o /verif/bin/wv ./cmd/wv',
    'hooks': {
        'guard': 'verif',
        'enable': 'go build -tags verif ./... (contract files /repo/**/contracts_verif.go are comment-only and compiled only under this tag; the checker loads /repo with -tags=verif)',
        'baseline_off_cmd': baseline['cmd'],
        'source_commits': hook_commits,
        'add_only': True,
    },
    'engines': [{'name': 'wv', 'path': '/verif/engine', 'serves_properties': sorted(claimed),
                 'kind_free_text': 'VC generator for Go (go/ssa -> guarded SMT definitions, contracts as comments, loop cutting at invariants, calls cut at contracts) with a z3/cvc5 portfolio'}],
    'checks': checks,
    'not_applicable': not_app,
    'notes': 'See DESIGN.md. Findings are recorded in known_findings.json (fixed: entries for repaired defects).',
}
json.dump(m, open(f'{V}/MANIFEST.json', 'w'), indent=1)
print('claimed', sorted(claimed), 'not applicable', len(not_app))
