#!/bin/bash
# usage: confirm_seeded.sh <dir with patch.diff, demo_test.go.txt>
# Confirms on a scratch copy of /repo (never /repo itself): the change compiles, the suite passes with it,
# the demonstration fails with it and passes without it. Prints one line.
d="$1"
S=/tmp/wv_confirm_$$
rm -rf $S; mkdir -p $S
rsync -a --exclude .git /repo/ $S/
export GOFLAGS=-mod=mod GOPROXY=off GOSUMDB=off GOTOOLCHAIN=local
cd $S && git init -q . >/dev/null 2>&1
place=$(sed -n 's#^// place at: ##p' "$d/demo_test.go.txt" | head -1)
run=$(sed -n 's#^// run: ##p' "$d/demo_test.go.txt" | head -1)
# clean tree: demo passes
cp "$d/demo_test.go.txt" "$S/$place"
(cd $S && eval "timeout 600 $run -timeout 300s") > $S/.clean.log 2>&1; clean=$?
rm -f "$S/$place"
git apply --whitespace=nowarn "$d/patch.diff" || { echo "$d PATCH-DOES-NOT-APPLY"; rm -rf $S; exit 3; }
go build ./... > $S/.build.log 2>&1; build=$?
go test -vet=off -count=1 -timeout 600s ./... > $S/.suite.log 2>&1; suite=$?
cp "$d/demo_test.go.txt" "$S/$place"
(cd $S && eval "timeout 600 $run -timeout 300s") > $S/.mut.log 2>&1; mut=$?
echo "$d build=$build suite=$suite demo_with_change=$mut(expect!=0) demo_clean=$clean(expect 0)"
rm -rf $S
