#!/bin/bash
# usage: eval_seeded.sh <dir-with-patch.diff> <property-id> [more property ids...]
# Applies the patch to a scratch copy of /repo (never /repo itself) and runs the quick checks of the given properties there.
d="$1"; shift
S=/tmp/wv_seed_$$
rm -rf $S; mkdir -p $S
rsync -a --exclude .git /repo/ $S/
export GOFLAGS=-mod=mod GOPROXY=off GOSUMDB=off GOTOOLCHAIN=local
(cd $S && git init -q . >/dev/null 2>&1 && git apply --whitespace=nowarn "$d/patch.diff") || { echo "PATCH-DOES-NOT-APPLY $d"; rm -rf $S; exit 3; }
(cd $S && go build ./... ) >/dev/null 2>&1 || { echo "MUTANT-DOES-NOT-COMPILE $d"; rm -rf $S; exit 4; }
rc=0
for p in "$@"; do
  out=$(/verif/bin/wv check $p --repo $S --no-evidence 2>&1 | sed "s#$S#/repo#g")
  v=$(echo "$out" | grep -c "^VIOLATION")
  r=$(echo "$out" | grep "^VIOLATION" | grep -vc "no-failing-input-found")
  echo "$d $p violations=$v replayed=$r :: $(echo "$out" | grep -A1 '^VIOLATION' | grep obligation | head -3 | cut -c1-150 | tr '\n' '|')"
  echo "$out" | tail -1
done
rm -rf $S /verif/out/*/quick_$(basename $S) /verif/out/*/thorough_$(basename $S)
