#!/bin/bash
# usage: mut.sh <file-relative-to-repo> <python-replace-old> <python-replace-new> -- wv args...
# Applies a textual mutation to a scratch copy of /repo and runs bin/wv there.
set -e
f="$1"; old="$2"; new="$3"; shift 4
S=/tmp/wv_mut_$$
rm -rf $S; mkdir -p $S
rsync -a --exclude .git /repo/ $S/
python3 - "$S/$f" "$old" "$new" <<'PY'
import sys
p,old,new=sys.argv[1:4]
s=open(p).read()
if old not in s:
    print("MUTATION TARGET NOT FOUND"); sys.exit(3)
open(p,'w').write(s.replace(old,new,1))
PY
export GOFLAGS=-mod=mod GOPROXY=off GOSUMDB=off GOTOOLCHAIN=local
(cd $S && go build ./... ) || { echo "MUTANT DOES NOT COMPILE"; rm -rf $S; exit 4; }
set +e
cmd=$1; shift; if [ "$cmd" = ssa ]; then (cd $S && WV_REPO=$S /verif/bin/wv ssa "$@"); else /verif/bin/wv $cmd --repo $S "$@"; fi 2>&1 | sed "s#$S#/repo#g"
rc=$?
rm -rf $S
exit $rc
